#!/usr/bin/env python3
"""Regenerates MANIFEST.json from the table below (kept in one place so it stays valid)."""
import json, os, subprocess

ROOT = os.path.dirname(os.path.abspath(__file__))

def hook_commits():
    out = subprocess.run(["git", "-C", "/repo", "log", "--format=%H %s"], capture_output=True, text=True).stdout
    return [l.split()[0] for l in out.splitlines() if " verif hook:" in " " + l]

# id -> (technique, level text, level note, design ref)
CHECKS = {
}

NOT_YET = {}

def load_table():
    with open(os.path.join(ROOT, "checks_table.json")) as f:
        return json.load(f)

def main():
    table = load_table()
    checks = []
    for pid in sorted(table["checks"]):
        c = table["checks"][pid]
        entry = {
            "property_id": pid,
            "quick_cmd": f"./check {pid} --tier quick",
            "thorough_cmd": f"./check {pid} --tier thorough",
            "evidence_file": f"/verif/evidence/{pid}.json",
            "replay_cmd_template": f"./check {pid} --replay {{path}}",
            "engine": "mv-harness",
            "level_claimed": {"category": "exploration", "text": c["level_text"], "design_ref": c.get("design_ref", f"DESIGN.md §6 {pid}")},
            "level_note": c["level_note"],
            "technique": c["technique"],
        }
        checks.append(entry)
    manifest = {
        "version": 1,
        "setup_cmd": "./setup.sh",
        "hooks": {
            "guard": "--cfg mahf_verif",
            "enable": "RUSTFLAGS=\"--cfg mahf_verif\" (set by ./check for every harness build; harness depends on /repo by path)",
            "baseline_off_cmd": "cd /repo && cargo test --workspace --no-fail-fast --offline",
            "source_commits": hook_commits(),
            "add_only": True,
        },
        "engines": [
            {
                "name": "mv-harness",
                "path": "/verif/harness",
                "serves_properties": sorted(table["checks"]),
                "kind_free_text": "Rust monitor binaries (one per property) linked against /repo built with --cfg mahf_verif: reference-model comparators over generated histories, invariant walkers at the step-observer hook, relational oracles over input grids, differential runs; Miri and ThreadSanitizer as auxiliary observers; driver ./check maps exit codes and enforces watchdogs",
            }
        ],
        "checks": checks,
        "not_applicable": [{"property_id": k, "reason": v} for k, v in sorted(table.get("not_applicable", {}).items())],
        "notes": table.get("notes", ""),
    }
    with open(os.path.join(ROOT, "MANIFEST.json"), "w") as f:
        json.dump(manifest, f, indent=1)
        f.write("\n")

if __name__ == "__main__":
    main()
