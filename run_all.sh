#!/bin/bash
# run_all.sh <tier> <seed> — runs every check once and prints one line per check (for soak testing).
TIER=${1:-quick}; SEED=${2:-1}
cd "$(dirname "$0")"
for i in $(seq -w 1 20); do
  id=C$i
  t0=$(date +%s)
  out=$(VERIF_SEED=$SEED ./check $id --tier $TIER 2>&1); rc=$?
  t1=$(date +%s)
  echo "$id tier=$TIER seed=$SEED exit=$rc $((t1-t0))s $(echo "$out" | grep -E "^C[0-9]+: |INCONCLUSIVE" | tail -1) $(echo "$out" | grep -c '^VIOLATION') viol"
  echo "$out" | grep -E "signature:" | head -5
done
