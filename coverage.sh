#!/bin/bash
# coverage.sh [tier] — measures which lines of /repo/src the monitors actually execute (nightly
# -Cinstrument-coverage build in target/cov, all cNN binaries run once), prints a per-file table and
# writes target/cov/uncovered.txt. Informational: not a registered check.
set -u
TIER=${1:-quick}
ROOT="$(cd "$(dirname "$0")" && pwd)"
COV=$ROOT/target/cov
BIN=~/.rustup/toolchains/nightly-x86_64-unknown-linux-gnu/lib/rustlib/x86_64-unknown-linux-gnu/bin
mkdir -p $COV/prof; rm -f $COV/prof/*.profraw
cd $ROOT/harness
export CARGO_NET_OFFLINE=true CARGO_TARGET_DIR=$COV RUSTFLAGS="--cfg mahf_verif -Cinstrument-coverage" VERIF_ROOT=$COV/fakeroot
mkdir -p $VERIF_ROOT/evidence; cp $ROOT/known_findings.json $VERIF_ROOT/
LLVM_PROFILE_FILE="$COV/prof/build-%p-%m.profraw" cargo +nightly build --release --offline --bins 2>&1 | tail -1; rm -f $COV/prof/build-*.profraw
objs=""
for i in $(seq -w 1 20); do
  b=$COV/release/c$i
  LLVM_PROFILE_FILE="$COV/prof/c$i-%p-%m.profraw" VERIF_SCRATCH=$COV/scratch timeout 1800 $b --tier $TIER --seed 1 > $COV/c$i.out 2>&1
  echo "c$i exit $?"
  objs="$objs -object $b"
done
$BIN/llvm-profdata merge -sparse $COV/prof/*.profraw -o $COV/all.profdata
$BIN/llvm-cov report $objs -instr-profile=$COV/all.profdata --ignore-filename-regex='(registry/src|rustc|harness/src)' 2>/dev/null | grep -E "^/repo|^TOTAL|^Filename" | awk '{print $1, $(NF-3), $(NF-2), $(NF-1)}' > $COV/report.txt
cat $COV/report.txt
