#!/bin/sh
# Builds every monitor binary once (offline) so that the per-check builds are incremental.
set -e
cd "$(dirname "$0")/harness"
export CARGO_NET_OFFLINE=true
export CARGO_TARGET_DIR="$(cd .. && pwd)/target"
export RUSTFLAGS="--cfg mahf_verif"
cargo build --release --offline --bins 2>&1 | tail -3
