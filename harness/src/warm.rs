//! A second run on the state a first run left behind, on a *changed problem instance* of the same shape
//! (same dimension and domain, other objective function): `Configuration::run(&problem_b, &mut state)`
//! with a configuration that re-evaluates the current population, re-creates the best-so-far memory and
//! continues with the generic loop of the same heuristic (ga, es, ls, pso, de). Everything the second run initialises must be
//! initialised afresh: nothing evaluated under the first objective may survive in a place the second run owns.
use std::sync::Mutex;

use mahf::{
    components::{boundary, initialization, mutation, recombination, replacement, selection, swarm},
    conditions::LessThanN,
    heuristics::{de, es, ga, ls, pso},
    identifier::Global,
    verif::StepEvent,
    Configuration,
};

use crate::{
    observe::{for_each_individual, install, run_observed_prepared},
    problems::{Instrumented, Real, RealFn},
    SplitMix64,
};

pub struct WarmOutcome {
    pub variant: &'static str,
    pub first_fn: RealFn,
    pub second_fn: RealFn,
    pub dim: usize,
    pub seed: u64,
    /// run 1 or run 2 failed / panicked (message) - nothing else is judged then
    pub failed: Option<String>,
    /// (component after which it was seen, location, message)
    pub stale: Vec<(String, String, String)>,
    pub hook_events: u64,
    pub individuals_audited: u64,
    /// best objective value reported after the second run
    pub final_best: Option<f64>,
    /// minimum value the second objective function returned during the second run
    pub min_evaluated_in_second_run: Option<f64>,
    /// evaluation counter after the second run / objective calls made during it
    pub second_run_reported_evaluations: u32,
    pub second_run_objective_calls: u64,
    /// passes of the main loop observed in the second run / requested
    pub second_run_passes: u32,
    pub second_run_requested_passes: u32,
    /// iteration counter after the second run
    pub second_run_iterations: u32,
}

/// Pairs (first, second) of objective functions; the first ones reach lower values than the second can.
const PAIRS: [(RealFn, RealFn); 4] = [(RealFn::NegSphere, RealFn::Sphere), (RealFn::Sphere, RealFn::Rastrigin), (RealFn::NegSphere, RealFn::Plateau), (RealFn::ShiftedSphere, RealFn::NegSphere)];

pub fn warm_restart(rng: &mut SplitMix64, k: usize) -> WarmOutcome {
    let dim = 1 + rng.usize(4);
    let (first_fn, second_fn) = PAIRS[(k / 5) % PAIRS.len()];
    let a = Real::new(dim, -3.0, 5.0, first_fn);
    let b = Real::new(dim, -3.0, 5.0, second_fn);
    let seed = rng.next_u64();
    let n1 = 3 + rng.below(20) as u32;
    let n2 = 1 + rng.below(12) as u32;
    let (variant, first, second): (&'static str, Configuration<Real>, Configuration<Real>) = match k % 5 {
        0 => (
            "ga",
            ga::real_ga(ga::RealProblemParameters { population_size: 6, tournament_size: 2, pm: 1.0, deviation: 0.2, pc: 0.8 }, LessThanN::iterations(n1)).unwrap(),
            Configuration::builder()
                .evaluate()
                .update_best_individual()
                .do_(ga::ga::<Real, Global>(
                    ga::Parameters {
                        selection: selection::Tournament::new(6, 2),
                        crossover: recombination::UniformCrossover::new_insert_both(0.8),
                        pm: 1.0,
                        mutation: mutation::NormalMutation::new_dev(0.2),
                        constraints: boundary::Saturation::new(),
                        archive: None,
                        replacement: replacement::Generational::new(6),
                    },
                    LessThanN::iterations(n2),
                ))
                .build(),
        ),
        1 => (
            "es",
            es::real_mu_plus_lambda_es::<Real, ()>(es::RealProblemParameters { population_size: 4, lambda: 6, deviation: 0.3 }, LessThanN::iterations(n1)).unwrap(),
            Configuration::builder()
                .evaluate()
                .update_best_individual()
                .do_(es::es::<Real, Global>(
                    es::Parameters {
                        selection: selection::FullyRandom::new(6),
                        mutation: mutation::NormalMutation::new_dev(0.3),
                        constraints: boundary::Saturation::new(),
                        archive: None,
                        replacement: replacement::MuPlusLambda::new(4),
                    },
                    LessThanN::iterations(n2),
                ))
                .build(),
        ),
        2 => (
            "ls",
            ls::real_ls(ls::RealProblemParameters { n_neighbors: 4, deviation: 0.3 }, LessThanN::iterations(n1)).unwrap(),
            Configuration::builder()
                .evaluate()
                .update_best_individual()
                .do_(ls::ls::<Real, Global>(ls::Parameters { num_neighbors: 4, neighbors: mutation::NormalMutation::new_dev(0.3), constraints: boundary::Saturation::new() }, LessThanN::iterations(n2)))
                .build(),
        ),
        3 => (
            "pso",
            pso::real_pso(pso::RealProblemParameters { num_particles: 5, start_weight: 0.9, end_weight: 0.4, c_one: 1.7, c_two: 1.7, v_max: 1.0 }, LessThanN::iterations(n1)).unwrap(),
            Configuration::builder()
                .evaluate()
                .update_best_individual()
                .do_(pso::pso::<Real, Global>(
                    pso::Parameters {
                        particle_init: swarm::pso::ParticleSwarmInit::new(1.0).unwrap(),
                        particle_update: swarm::pso::ParticleVelocitiesUpdate::new(0.7, 1.7, 1.7, 1.0).unwrap(),
                        constraints: boundary::Saturation::new(),
                        inertia_weight_update: None,
                        state_update: swarm::pso::ParticleSwarmUpdate::new(),
                    },
                    LessThanN::iterations(n2),
                ))
                .build(),
        ),
        _ => (
            "de",
            de::real_de(de::RealProblemParameters { population_size: 6, y: 1, f: 0.5, pc: 0.5 }, LessThanN::iterations(n1)).unwrap(),
            Configuration::builder()
                .evaluate()
                .update_best_individual()
                .do_(de::de::<Real, Global>(
                    de::Parameters {
                        selection: selection::de::DERand::new(1).unwrap(),
                        mutation: mutation::de::DEMutation::new(1, 0.5).unwrap(),
                        crossover: recombination::de::DEBinomialCrossover::new(0.5),
                        constraints: boundary::Saturation::new(),
                        replacement: replacement::KeepBetterAtIndex::new(),
                    },
                    LessThanN::iterations(n2),
                ))
                .build(),
        ),
    };
    let _ = initialization::Empty::new::<Real>;
    let mut out = WarmOutcome { variant, first_fn, second_fn, dim, seed, failed: None, stale: Vec::new(), hook_events: 0, individuals_audited: 0, final_best: None, min_evaluated_in_second_run: None, second_run_reported_evaluations: 0, second_run_objective_calls: 0, second_run_passes: 0, second_run_requested_passes: n2, second_run_iterations: 0 };
    let mut state = match run_observed_prepared(&first, &a, seed, false, None, |_| {}, |_, _, _| {}) {
        Ok(Ok(s)) => s,
        Ok(Err(e)) => {
            out.failed = Some(format!("first run failed: {e}"));
            return out;
        }
        Err(p) => {
            out.failed = Some(format!("first run panicked: {p}"));
            return out;
        }
    };
    b.instr().reset();
    #[derive(Default)]
    struct Rec {
        events: u64,
        audited: u64,
        stale: Vec<(String, String, String)>,
        /// passes of the first loop that starts in the second run (its main loop)
        main_loop: Option<usize>,
        main_loop_passes: u32,
    }
    let rec = std::sync::Arc::new(Mutex::new(Rec::default()));
    let rec2 = rec.clone();
    install(&mut state, move |ev, p: &Real, st| {
        if let StepEvent::LoopPass { start, looop } = ev {
            let mut r = rec2.lock().unwrap();
            if start && *r.main_loop.get_or_insert(looop) == looop {
                r.main_loop_passes += 1;
            }
            return;
        }
        if let StepEvent::BlockChild { before: false, component, .. } = ev {
            let mut r = rec2.lock().unwrap();
            r.events += 1;
            let name = crate::sniff::name_of(component);
            let mut stale = Vec::new();
            let mut audited = 0;
            for_each_individual(st, |loc, depth, ind| {
                audited += 1;
                if let Some(o) = ind.get_objective() {
                    let want = p.pure(ind.solution());
                    if o.value().to_bits() != want.to_bits() {
                        stale.push((name.clone(), loc.to_string(), format!("{loc} (scope {depth}): reports {} but the objective function of this run gives {} for solution {}", o.value(), want, Real::sol_json(ind.solution()))));
                    }
                }
            });
            r.audited += audited;
            r.stale.extend(stale);
        }
    });
    let res = crate::util::catch(|| second.run(&b, &mut state).map_err(|e| format!("{e:#}")));
    match res {
        Ok(Ok(())) => {}
        Ok(Err(e)) => out.failed = Some(format!("second run failed: {e}")),
        Err(p) => out.failed = Some(format!("second run panicked: {p}")),
    }
    out.final_best = state.best_objective_value().map(|o| o.value());
    out.min_evaluated_in_second_run = b.instr().min_value();
    out.second_run_reported_evaluations = state.evaluations();
    out.second_run_objective_calls = b.instr().calls();
    out.second_run_iterations = state.iterations();
    let _ = state.remove::<mahf::verif::StepObserverSlot<Real>>();
    let mut r = rec.lock().unwrap();
    out.hook_events = r.events;
    out.second_run_passes = r.main_loop_passes;
    out.individuals_audited = r.audited;
    out.stale = std::mem::take(&mut r.stale);
    out
}
