//! Catalogue of the 21 shipped heuristic templates x valid parameter sets x harness instances,
//! plus two assemblies of the generic `ga::ga` / `es::es` loops with other shipped components.
//!
//! "Valid" is fixed here from the documentation and the constructors' own checks (DESIGN.md §6 C16),
//! so that no monitor judges a run the template does not promise.
use mahf::{
    conditions::{LessThanN, OptimumReached},
    heuristics::*,
    problems::KnownOptimumProblem,
    Condition, Configuration,
};

use crate::problems::*;

#[derive(Clone, Copy, Debug, PartialEq, Eq, Hash, serde::Serialize)]
pub enum Tmpl {
    GaReal,
    GaBinary,
    Es,
    De,
    Pso,
    SaReal,
    SaPerm,
    LsReal,
    LsPerm,
    IlsReal,
    IlsPerm,
    RsReal,
    RsPerm,
    RwReal,
    RwPerm,
    Iwo,
    Fa,
    Bh,
    Cro,
    AntSystem,
    Mmas,
    /// not one of the 21 constructors: the generic `ga::ga` loop assembled with other shipped components than `real_ga` picks
    GaGeneric,
    /// the generic `es::es` loop assembled with other shipped components than `real_mu_plus_lambda_es` picks
    EsGeneric,
}

pub const ALL_TEMPLATES: [Tmpl; 23] = [
    Tmpl::GaReal,
    Tmpl::GaBinary,
    Tmpl::Es,
    Tmpl::De,
    Tmpl::Pso,
    Tmpl::SaReal,
    Tmpl::SaPerm,
    Tmpl::LsReal,
    Tmpl::LsPerm,
    Tmpl::IlsReal,
    Tmpl::IlsPerm,
    Tmpl::RsReal,
    Tmpl::RsPerm,
    Tmpl::RwReal,
    Tmpl::RwPerm,
    Tmpl::Iwo,
    Tmpl::Fa,
    Tmpl::Bh,
    Tmpl::Cro,
    Tmpl::AntSystem,
    Tmpl::Mmas,
    Tmpl::GaGeneric,
    Tmpl::EsGeneric,
];

impl Tmpl {
    pub fn n_param_sets(self) -> usize {
        match self {
            Tmpl::RsReal | Tmpl::RsPerm => 1,
            Tmpl::De | Tmpl::Iwo => 6,
            Tmpl::GaReal | Tmpl::GaGeneric | Tmpl::EsGeneric => 5,
            Tmpl::GaBinary | Tmpl::Pso | Tmpl::Fa | Tmpl::Bh | Tmpl::Cro | Tmpl::AntSystem | Tmpl::Es | Tmpl::LsReal | Tmpl::LsPerm => 4,
            _ => 3,
        }
    }
    pub fn n_instances(self) -> usize {
        match self {
            Tmpl::GaBinary => BIT_INSTANCES.len(),
            Tmpl::SaPerm | Tmpl::LsPerm | Tmpl::IlsPerm | Tmpl::RsPerm | Tmpl::RwPerm => PERM_DIMS.len(),
            Tmpl::AntSystem | Tmpl::Mmas => TSP_INSTANCES.len(),
            _ => REAL_INSTANCES.len(),
        }
    }
}

/// How the population size is constrained by the parameters.
#[derive(Clone, Copy, Debug, PartialEq, serde::Serialize)]
pub enum PopBound {
    Exactly(usize),
    AtMost(usize),
    /// >= 1, changes by at most one per pass
    Cro,
}

#[derive(Clone, Debug, serde::Serialize)]
pub struct CaseMeta {
    pub tmpl: Tmpl,
    pub params: String,
    pub instance: String,
    pub n: u32,
    /// pure `iterations(n)` condition => exactly n passes of the main loop
    pub exact_iters: bool,
    pub pop: PopBound,
    pub seed: u64,
    pub parallel: bool,
}

#[derive(Clone, Copy, Debug, PartialEq, Eq, Hash)]
pub struct Case {
    pub tmpl: Tmpl,
    pub pset: usize,
    pub inst: usize,
    pub n: u32,
    pub seed: u64,
    /// use `iterations(n) & !OptimumReached(eps)` instead of the pure iteration bound
    pub with_optimum: bool,
    pub parallel: bool,
}

const REAL_INSTANCES: [(usize, f64, f64, RealFn); 10] = [
    (1, -1.0, 1.0, RealFn::Sphere),
    (2, -5.12, 5.12, RealFn::Rastrigin),
    (3, 0.0, 10.0, RealFn::ShiftedSphere),
    (5, -1.0, 1.0, RealFn::Plateau),
    (2, -3.0, 7.0, RealFn::NegSphere),
    (4, -5.12, 5.12, RealFn::Sphere),
    (2, -2.0, 2.0, RealFn::InfPart),
    (3, 1.0e3, 1.0e3 + 1.0, RealFn::Sphere),
    // every solution infeasible (+inf): everything ties, nothing ever improves
    (2, -1.0, 1.0, RealFn::AllInf),
    // a known optimum of 250: "within epsilon of the optimum" is an absolute distance
    (2, -1.0, 1.0, RealFn::OffsetSphere),
];
const BIT_INSTANCES: [(usize, BitFn); 4] = [(1, BitFn::OneMax), (4, BitFn::Trap), (16, BitFn::OneMax), (7, BitFn::Trap)];
const PERM_DIMS: [usize; 3] = [3, 5, 8];
const TSP_INSTANCES: [(usize, DistKind); 5] =
    [(2, DistKind::Random), (4, DistKind::Clustered), (8, DistKind::VeryUnequal), (5, DistKind::Random), (3, DistKind::VeryUnequal)];

pub fn real_instance(i: usize) -> Real {
    let (d, lo, hi, f) = REAL_INSTANCES[i % REAL_INSTANCES.len()];
    Real::new(d, lo, hi, f)
}
pub fn real_instance_desc(i: usize) -> String {
    let (d, lo, hi, f) = REAL_INSTANCES[i % REAL_INSTANCES.len()];
    format!("Real{{dim:{d}, domain:[{lo},{hi}), f:{f:?}}}")
}
/// Instances on which objective values are always finite (IWO documents that it needs them).
pub fn real_instance_is_finite(i: usize) -> bool {
    !matches!(REAL_INSTANCES[i % REAL_INSTANCES.len()].3, RealFn::InfPart | RealFn::AllInf)
}

fn cond<P: KnownOptimumProblem>(n: u32, with_optimum: bool) -> Box<dyn Condition<P>> {
    if with_optimum {
        LessThanN::iterations(n) & !OptimumReached::new(1e-3).unwrap()
    } else {
        LessThanN::iterations(n)
    }
}

/// Receives each fully built case; generic over the problem type.
pub trait TemplateVisitor {
    fn visit<P>(&mut self, meta: &CaseMeta, cfg: Configuration<P>, problem: &P)
    where
        P: Instrumented + KnownOptimumProblem;
}

/// Builds the configuration of `case` and hands it to the visitor. Construction errors for valid
/// parameters are reported through `on_ctor_error`.
pub fn dispatch<V: TemplateVisitor>(case: &Case, v: &mut V, on_ctor_error: &mut dyn FnMut(&CaseMeta, String)) {
    let Case { tmpl, pset, inst, n, seed, with_optimum, parallel } = *case;
    let mut meta = CaseMeta {
        tmpl,
        params: String::new(),
        instance: String::new(),
        n,
        exact_iters: !with_optimum,
        pop: PopBound::Exactly(1),
        seed,
        parallel,
    };
    macro_rules! go {
        ($problem:expr, $cfg:expr) => {{
            let problem = $problem;
            match $cfg {
                Ok(cfg) => v.visit(&meta, cfg, &problem),
                Err(e) => on_ctor_error(&meta, format!("{e:#}")),
            }
        }};
    }
    match tmpl {
        Tmpl::GaReal => {
            // (the last one differs from the third only in the deviation of a mutation that never runs: still another configuration)
            let sets = [(6u32, 2u32, 1.0, 0.1, 0.8), (2, 2, 0.5, 1.0, 0.0), (9, 3, 0.0, 0.01, 1.0), (5, 1, 1.0, 0.5, 0.5), (9, 3, 0.0, 0.5, 1.0)];
            let (population_size, tournament_size, pm, deviation, pc) = sets[pset % sets.len()];
            meta.params = format!("population_size={population_size} tournament_size={tournament_size} pm={pm} deviation={deviation} pc={pc}");
            meta.instance = real_instance_desc(inst);
            meta.pop = PopBound::Exactly(population_size as usize);
            go!(real_instance(inst), ga::real_ga(ga::RealProblemParameters { population_size, tournament_size, pm, deviation, pc }, cond::<Real>(n, with_optimum)))
        }
        Tmpl::GaGeneric => {
            use mahf::components::{archive, boundary, initialization, mutation, recombination, replacement, selection};
            use mahf::identifier::Global;
            let p = real_instance(inst);
            // (population, selection, crossover, pm, mutation, constraints, archive, replacement): combinations in which
            // every operator gets an input it documents as valid in every generation
            let k = pset % 5;
            let population_size = [6u32, 4, 7, 5, 4][k];
            let selection = match k {
                0 => selection::FullyRandom::new(population_size),
                1 => selection::LinearRank::new(population_size),
                2 => selection::RandomWithoutRepetition::new(5),
                // twice as many parents as individuals (so the same individual is often paired with itself), one child per pair
                4 => selection::Tournament::new(2 * population_size, 2),
                _ => selection::Tournament::new(population_size, 3),
            };
            let crossover = match k {
                0 => recombination::UniformCrossover::new_insert_both(0.8),
                // (a one-point crossover needs at least two genes)
                1 if p.domains.len() >= 2 => recombination::NPointCrossover::new(1, 1.0, false),
                1 => recombination::UniformCrossover::new(1.0, false),
                2 => recombination::ArithmeticCrossover::new_insert_both(0.5),
                4 => recombination::ArithmeticCrossover::new_insert_single(1.0),
                _ => recombination::UniformCrossover::new_insert_both(0.0),
            };
            let pm = [1.0, 0.5, 0.0, 1.0, 0.0][k];
            let mutation = match k {
                1 => mutation::UniformMutation::new(0.2, 1.0),
                _ => mutation::NormalMutation::new_dev(0.1),
            };
            let constraints = match k {
                1 => boundary::Mirror::new(),
                2 => boundary::Toroidal::new(),
                _ => boundary::Saturation::new(),
            };
            let archive = if k == 1 { Some(archive::ElitistArchiveUpdate::new(2)) } else { None };
            // replacements that do NOT keep all evaluated offspring: whatever is dropped must have been seen by the best-so-far memory
            let replacement = match k {
                0 | 3 => replacement::RandomReplacement::new(population_size),
                4 => replacement::Generational::new(population_size),
                _ => replacement::MuPlusLambda::new(population_size),
            };
            meta.params = format!("generic ga: population_size={population_size} combination#{k} (selection/crossover/mutation/constraints/archive/replacement varied)");
            meta.instance = real_instance_desc(inst);
            meta.pop = PopBound::Exactly(population_size as usize);
            let cfg: mahf::ExecResult<Configuration<Real>> = Ok(Configuration::builder()
                .do_(initialization::RandomSpread::new(population_size))
                .evaluate()
                .update_best_individual()
                .do_(ga::ga::<Real, Global>(ga::Parameters { selection, crossover, pm, mutation, constraints, archive, replacement }, cond::<Real>(n, with_optimum)))
                .build());
            go!(p, cfg)
        }
        Tmpl::EsGeneric => {
            use mahf::components::{archive, boundary, initialization, mutation, replacement, selection};
            use mahf::identifier::Global;
            let p = real_instance(inst);
            let k = pset % 5;
            // (#4: a population that starts at 2 and grows towards a limit of 8 - parents + offspring stay below the limit at first)
            let (mu, lambda) = [(4u32, 6u32), (3, 3), (5, 2), (2, 7), (8, 3)][k];
            let selection = match k {
                0 => selection::FullyRandom::new(lambda),
                1 => selection::RandomWithoutRepetition::new(lambda),
                2 => selection::Tournament::new(lambda, 2),
                _ => selection::ExponentialRank::new(lambda, 0.7).unwrap(),
            };
            let mutation = if k == 2 { mutation::UniformMutation::new(0.3, 1.0) } else { mutation::NormalMutation::new_dev(0.2) };
            let constraints = match k {
                0 => boundary::Toroidal::new(),
                1 => boundary::Mirror::new(),
                _ => boundary::Saturation::new(),
            };
            let archive = if k == 3 { Some(archive::ElitistArchiveUpdate::new(3)) } else { None };
            let replacement = match k {
                0 | 2 | 4 => replacement::RandomReplacement::new(mu),
                1 => replacement::Generational::new(mu),
                _ => replacement::MuPlusLambda::new(mu),
            };
            meta.params = format!("generic es: mu={mu} lambda={lambda} combination#{k} (selection/mutation/constraints/archive/replacement varied)");
            meta.instance = real_instance_desc(inst);
            // (mu, comma-like) Generational keeps min(mu, lambda) offspring
            meta.pop = if k == 1 || k == 4 { PopBound::AtMost(mu as usize) } else { PopBound::Exactly(mu as usize) };
            let cfg: mahf::ExecResult<Configuration<Real>> = Ok(Configuration::builder()
                .do_(initialization::RandomSpread::new(if k == 4 { 2 } else { mu }))
                .evaluate()
                .update_best_individual()
                .do_(es::es::<Real, Global>(es::Parameters { selection, mutation, constraints, archive, replacement }, cond::<Real>(n, with_optimum)))
                .build());
            go!(p, cfg)
        }
        Tmpl::GaBinary => {
            let sets = [(6u32, 2u32, 0.1, 0.8, 1.0), (3, 3, 0.5, 0.0, 0.5), (8, 1, 0.0, 1.0, 0.0), (8, 1, 0.7, 1.0, 0.0)];
            let (population_size, tournament_size, rm, pc, pm) = sets[pset % sets.len()];
            let (dim, f) = BIT_INSTANCES[inst % BIT_INSTANCES.len()];
            meta.params = format!("population_size={population_size} tournament_size={tournament_size} rm={rm} pc={pc} pm={pm}");
            meta.instance = format!("Bits{{dim:{dim}, f:{f:?}}}");
            meta.pop = PopBound::Exactly(population_size as usize);
            go!(Bits::new(dim, f), ga::binary_ga(ga::BinaryProblemParameters { population_size, tournament_size, rm, pc, pm }, cond::<Bits>(n, with_optimum)))
        }
        Tmpl::Es => {
            // (3, 0): no offspring at all - the empty offspring population still goes through evaluation and replacement
            let sets = [(4u32, 8u32, 0.1), (1, 1, 1.0), (5, 2, 0.01), (3, 0, 0.1)];
            let (population_size, lambda, deviation) = sets[pset % sets.len()];
            meta.params = format!("mu={population_size} lambda={lambda} deviation={deviation}");
            meta.instance = real_instance_desc(inst);
            meta.pop = PopBound::Exactly(population_size as usize);
            go!(real_instance(inst), es::real_mu_plus_lambda_es::<Real, ()>(es::RealProblemParameters { population_size, lambda, deviation }, cond::<Real>(n, with_optimum)))
        }
        Tmpl::De => {
            // (2, 1) and (4, 2): population = 2y, the smallest population DEBest can draw 2y members from
            let sets = [(6u32, 1u32, 0.5, 0.5), (4, 1, 2.0, 0.0), (8, 2, 0.0, 1.0), (6, 2, 1.0, 0.9), (2, 1, 0.8, 0.5), (4, 2, 0.5, 0.3)];
            let (population_size, y, f, pc) = sets[pset % sets.len()];
            meta.params = format!("population_size={population_size} y={y} f={f} pc={pc}");
            meta.instance = real_instance_desc(inst);
            meta.pop = PopBound::Exactly(population_size as usize);
            go!(real_instance(inst), de::real_de(de::RealProblemParameters { population_size, y, f, pc }, cond::<Real>(n, with_optimum)))
        }
        Tmpl::Pso => {
            let p = real_instance(inst);
            let width = p.domains[0].1 - p.domains[0].0;
            let sets = [(5u32, 0.9, 0.4, 1.7, 1.7, 1.0), (1, 0.5, 0.5, 0.0, 0.0, 0.1), (20, 0.0, 0.0, 1.7, 0.0, 1e-3 * width), (8, 0.9, 0.4, 0.0, 1.7, 10.0)];
            let (num_particles, start_weight, end_weight, c_one, c_two, v_max) = sets[pset % sets.len()];
            meta.params = format!("num_particles={num_particles} start_weight={start_weight} end_weight={end_weight} c_one={c_one} c_two={c_two} v_max={v_max}");
            meta.instance = real_instance_desc(inst);
            meta.pop = PopBound::Exactly(num_particles as usize);
            go!(p, pso::real_pso(pso::RealProblemParameters { num_particles, start_weight, end_weight, c_one, c_two, v_max }, cond::<Real>(n, with_optimum)))
        }
        Tmpl::SaReal => {
            let sets = [(1.0, 0.9, 0.1), (1e-6, 0.0, 1.0), (1e6, 0.999, 0.01)];
            let (t_0, alpha, deviation) = sets[pset % sets.len()];
            meta.params = format!("t_0={t_0} alpha={alpha} deviation={deviation}");
            meta.instance = real_instance_desc(inst);
            go!(real_instance(inst), sa::real_sa(sa::RealProblemParameters { t_0, alpha, deviation }, cond::<Real>(n, with_optimum)))
        }
        Tmpl::SaPerm => {
            let dim = PERM_DIMS[inst % PERM_DIMS.len()];
            let sets = [(1.0, 0.9, 2u32), (100.0, 0.5, dim as u32), (0.01, 0.0, 3)];
            let (t_0, alpha, num_swap) = sets[pset % sets.len()];
            meta.params = format!("t_0={t_0} alpha={alpha} num_swap={num_swap}");
            meta.instance = format!("Perm{{dim:{dim}}}");
            go!(Perm::new(dim), sa::permutation_sa(sa::PermutationProblemParameters { t_0, alpha, num_swap }, cond::<Perm>(n, with_optimum)))
        }
        Tmpl::LsReal => {
            let sets = [(1u32, 0.1), (5, 1.0), (3, 0.01), (0, 0.1)];
            let (n_neighbors, deviation) = sets[pset % sets.len()];
            meta.params = format!("n_neighbors={n_neighbors} deviation={deviation}");
            meta.instance = real_instance_desc(inst);
            go!(real_instance(inst), ls::real_ls(ls::RealProblemParameters { n_neighbors, deviation }, cond::<Real>(n, with_optimum)))
        }
        Tmpl::LsPerm => {
            let dim = PERM_DIMS[inst % PERM_DIMS.len()];
            let sets = [(1u32, 2u32), (4, dim as u32), (3, 3), (0, 2)];
            let (num_neighbors, num_swap) = sets[pset % sets.len()];
            meta.params = format!("num_neighbors={num_neighbors} num_swap={num_swap}");
            meta.instance = format!("Perm{{dim:{dim}}}");
            go!(Perm::new(dim), ls::permutation_ls(ls::PermutationProblemParameters { num_neighbors, num_swap }, cond::<Perm>(n, with_optimum)))
        }
        Tmpl::IlsReal => {
            let sets = [(2u32, 0.1, 3u32), (1, 1.0, 1), (4, 0.05, 0)];
            let (n_neighbors, deviation, inner) = sets[pset % sets.len()];
            meta.params = format!("ls: n_neighbors={n_neighbors} deviation={deviation} ls_condition=iterations({inner})");
            meta.instance = real_instance_desc(inst);
            go!(
                real_instance(inst),
                ils::real_ils(
                    ils::RealProblemParameters { ls_params: ls::RealProblemParameters { n_neighbors, deviation }, ls_condition: LessThanN::iterations(inner) },
                    cond::<Real>(n, with_optimum)
                )
            )
        }
        Tmpl::IlsPerm => {
            let dim = PERM_DIMS[inst % PERM_DIMS.len()];
            let sets = [(2u32, 2u32, 3u32), (1, dim as u32, 1), (3, 3, 0)];
            let (num_neighbors, num_swap, inner) = sets[pset % sets.len()];
            meta.params = format!("ls: num_neighbors={num_neighbors} num_swap={num_swap} ls_condition=iterations({inner})");
            meta.instance = format!("Perm{{dim:{dim}}}");
            go!(
                Perm::new(dim),
                ils::permutation_ils(
                    ils::PermutationProblemParameters { ls_params: ls::PermutationProblemParameters { num_neighbors, num_swap }, ls_condition: LessThanN::iterations(inner) },
                    cond::<Perm>(n, with_optimum)
                )
            )
        }
        Tmpl::RsReal => {
            meta.params = "-".into();
            meta.instance = real_instance_desc(inst);
            go!(real_instance(inst), rs::real_rs(cond::<Real>(n, with_optimum)))
        }
        Tmpl::RsPerm => {
            let dim = PERM_DIMS[inst % PERM_DIMS.len()];
            meta.params = "-".into();
            meta.instance = format!("Perm{{dim:{dim}}}");
            go!(Perm::new(dim), rs::permutation_rs(cond::<Perm>(n, with_optimum)))
        }
        Tmpl::RwReal => {
            let sets = [0.1, 1.0, 1e-6];
            let deviation = sets[pset % sets.len()];
            meta.params = format!("deviation={deviation}");
            meta.instance = real_instance_desc(inst);
            go!(real_instance(inst), rw::real_rw(rw::RealProblemParameters { deviation }, cond::<Real>(n, with_optimum)))
        }
        Tmpl::RwPerm => {
            let dim = PERM_DIMS[inst % PERM_DIMS.len()];
            let sets = [2u32, dim as u32, 3];
            let num_swap = sets[pset % sets.len()];
            meta.params = format!("num_swap={num_swap}");
            meta.instance = format!("Perm{{dim:{dim}}}");
            go!(Perm::new(dim), rw::permutation_random_walk(rw::PermutationProblemParameters { num_swap }, cond::<Perm>(n, with_optimum)))
        }
        Tmpl::Iwo => {
            // the documented requirement is final_deviation <= initial_deviation (the deviation shrinks over the run; equal is allowed)
            let sets = [(4u32, 10u32, 0u32, 3u32, 0.5, 0.01, 3u32), (1, 1, 1, 1, 0.2, 0.1, 1), (5, 5, 0, 5, 1.0, 0.001, 2), (3, 8, 2, 2, 0.06, 0.06, 4), (3, 6, 0, 1, 0.5, 0.01, 2), (2, 4, 0, 0, 0.5, 0.01, 2)];
            let (initial_population_size, max_population_size, min_number_of_seeds, max_number_of_seeds, initial_deviation, final_deviation, modulation_index) = sets[pset % sets.len()];
            // IWO documents that it does not work with infinite objective values
            let inst = if real_instance_is_finite(inst) { inst } else { inst + 1 };
            meta.params = format!("initial_population_size={initial_population_size} max_population_size={max_population_size} seeds=[{min_number_of_seeds},{max_number_of_seeds}] deviation=[{initial_deviation},{final_deviation}] modulation_index={modulation_index}");
            meta.instance = real_instance_desc(inst);
            meta.pop = PopBound::AtMost(max_population_size as usize);
            go!(
                real_instance(inst),
                iwo::real_iwo(
                    iwo::RealProblemParameters { initial_population_size, max_population_size, min_number_of_seeds, max_number_of_seeds, initial_deviation, final_deviation, modulation_index },
                    cond::<Real>(n, with_optimum)
                )
            )
        }
        Tmpl::Fa => {
            let sets = [(5u32, 0.5, 1.0, 1.0, 0.97), (2, 0.0, 0.5, 0.01, 0.0), (8, 1.0, 0.2, 10.0, 0.5), (1, 0.3, 1.0, 1.0, 0.9)];
            let (pop_size, alpha, beta, gamma, delta) = sets[pset % sets.len()];
            meta.params = format!("pop_size={pop_size} alpha={alpha} beta={beta} gamma={gamma} delta={delta}");
            meta.instance = real_instance_desc(inst);
            meta.pop = PopBound::Exactly(pop_size as usize);
            go!(real_instance(inst), fa::real_fa(fa::RealProblemParameters { pop_size, alpha, beta, gamma, delta }, cond::<Real>(n, with_optimum)))
        }
        Tmpl::Bh => {
            let sets = [5u32, 2, 10, 1];
            let num_particles = sets[pset % sets.len()];
            meta.params = format!("num_particles={num_particles}");
            meta.instance = real_instance_desc(inst);
            meta.pop = PopBound::Exactly(num_particles as usize);
            go!(real_instance(inst), bh::real_bh(bh::RealProblemParameters { num_particles }, cond::<Real>(n, with_optimum)))
        }
        Tmpl::Cro => {
            let sets = [
                (10u32, 0.5, 0.1, 3u32, 1.0, 1.0, 0.0, 0.1, 0.5),
                (2, 0.2, 0.0, 0, 100.0, 0.0, 10.0, 0.05, 1.0),
                (1, 0.9, 0.5, 1, 0.0, 5.0, 1.0, 0.1, 0.1),
                (6, 0.0, 0.9, 1000, 0.5, 100.0, 1000.0, 1.0, 0.01),
            ];
            let (initial_population_size, mole_coll, kinetic_energy_lr, alpha, beta, initial_kinetic_energy, buffer, on_wall_deviation, decomposition_deviation) = sets[pset % sets.len()];
            // energies are objective values: CRO needs finite ones
            let inst = if real_instance_is_finite(inst) { inst } else { inst + 1 };
            meta.params = format!("initial_population_size={initial_population_size} mole_coll={mole_coll} kinetic_energy_lr={kinetic_energy_lr} alpha={alpha} beta={beta} initial_kinetic_energy={initial_kinetic_energy} buffer={buffer} on_wall_deviation={on_wall_deviation} decomposition_deviation={decomposition_deviation}");
            meta.instance = real_instance_desc(inst);
            meta.pop = PopBound::Cro;
            go!(
                real_instance(inst),
                cro::real_cro(
                    cro::RealProblemParameters { initial_population_size, mole_coll, kinetic_energy_lr, alpha, beta, initial_kinetic_energy, buffer, on_wall_deviation, decomposition_deviation },
                    cond::<Real>(n, with_optimum)
                )
            )
        }
        Tmpl::AntSystem => {
            let sets = [(4usize, 1.0, 2.0, 1.0, 0.1, 1.0), (1, 0.0, 0.0, 0.5, 0.5, 2.0), (8, 2.0, 5.0, 1e-3, 0.99, 1.0), (3, 1.0, 1.0, 10.0, 0.0, 0.1)];
            let (num_ants, alpha, beta, default_pheromones, evaporation, decay_coefficient) = sets[pset % sets.len()];
            let (nn, kind) = TSP_INSTANCES[inst % TSP_INSTANCES.len()];
            meta.params = format!("num_ants={num_ants} alpha={alpha} beta={beta} default_pheromones={default_pheromones} evaporation={evaporation} decay_coefficient={decay_coefficient}");
            meta.instance = format!("Tsp{{n:{nn}, dist:{kind:?}}}");
            meta.pop = PopBound::Exactly(num_ants + 1);
            go!(
                Tsp::new(nn, kind, 77 + inst as u64),
                aco::ant_system(aco::ASParameters::verif_new(num_ants, alpha, beta, default_pheromones, evaporation, decay_coefficient), cond::<Tsp>(n, with_optimum))
            )
        }
        Tmpl::Mmas => {
            let sets = [(4usize, 1.0, 2.0, 1.0, 0.1, 5.0, 0.01), (1, 0.0, 1.0, 0.5, 0.5, 1.0, 0.1), (6, 2.0, 5.0, 2.0, 0.99, 2.0, 1e-6)];
            let (num_ants, alpha, beta, default_pheromones, evaporation, max_pheromones, min_pheromones) = sets[pset % sets.len()];
            let (nn, kind) = TSP_INSTANCES[inst % TSP_INSTANCES.len()];
            meta.params = format!("num_ants={num_ants} alpha={alpha} beta={beta} default_pheromones={default_pheromones} evaporation={evaporation} max_pheromones={max_pheromones} min_pheromones={min_pheromones}");
            meta.instance = format!("Tsp{{n:{nn}, dist:{kind:?}}}");
            meta.pop = PopBound::Exactly(num_ants + 1);
            go!(
                Tsp::new(nn, kind, 77 + inst as u64),
                aco::max_min_ant_system(aco::MMASParameters::verif_new(num_ants, alpha, beta, default_pheromones, evaporation, max_pheromones, min_pheromones), cond::<Tsp>(n, with_optimum))
            )
        }
    }
}

/// The case list of a tier: every template x every parameter set x instances x iteration counts x seeds.
pub fn cases(quick: bool, seed: u64, seeds_per_cell: usize) -> Vec<Case> {
    let mut rng = crate::util::SplitMix64::new(seed).fork(0x7E3);
    let ns: &[u32] = if quick { &[0, 1, 5, 25] } else { &[0, 1, 5, 40] };
    let mut out = Vec::new();
    for &tmpl in ALL_TEMPLATES.iter() {
        for pset in 0..tmpl.n_param_sets() {
            let n_inst = tmpl.n_instances();
            let insts: Vec<usize> = if quick {
                // two instances per parameter set, rotating
                (0..2).map(|k| (pset * 2 + k + rng.usize(n_inst)) % n_inst).collect()
            } else {
                (0..n_inst).collect()
            };
            for inst in insts {
                for &n in ns {
                    for s in 0..seeds_per_cell {
                        out.push(Case {
                            tmpl,
                            pset,
                            inst,
                            n,
                            seed: rng.next_u64() % 1_000_000 + s as u64,
                            with_optimum: rng.chance(0.15) && n > 1,
                            parallel: rng.chance(0.25),
                        });
                    }
                }
            }
        }
    }
    out
}
