//! Name sniffer: a `serde::Serializer` that only reports the outermost type name of a value.
//! Components are `erased_serde::Serialize`, so this tells the step observer which component is
//! about to run without touching mahf.
use serde::{ser, Serialize};

#[derive(Debug)]
pub struct SniffError(String);
impl std::fmt::Display for SniffError {
    fn fmt(&self, f: &mut std::fmt::Formatter<'_>) -> std::fmt::Result {
        write!(f, "{}", self.0)
    }
}
impl std::error::Error for SniffError {}
impl ser::Error for SniffError {
    fn custom<T: std::fmt::Display>(msg: T) -> Self {
        SniffError(msg.to_string())
    }
}

pub struct Sniffer;
pub struct Named(String);

macro_rules! prim {
    ($($f:ident($t:ty) => $n:expr),*) => {
        $(fn $f(self, _v: $t) -> Result<String, SniffError> { Ok($n.to_string()) })*
    };
}

impl ser::Serializer for Sniffer {
    type Ok = String;
    type Error = SniffError;
    type SerializeSeq = Named;
    type SerializeTuple = Named;
    type SerializeTupleStruct = Named;
    type SerializeTupleVariant = Named;
    type SerializeMap = Named;
    type SerializeStruct = Named;
    type SerializeStructVariant = Named;

    prim!(serialize_bool(bool) => "bool", serialize_i8(i8) => "i8", serialize_i16(i16) => "i16",
          serialize_i32(i32) => "i32", serialize_i64(i64) => "i64", serialize_u8(u8) => "u8",
          serialize_u16(u16) => "u16", serialize_u32(u32) => "u32", serialize_u64(u64) => "u64",
          serialize_f32(f32) => "f32", serialize_f64(f64) => "f64", serialize_char(char) => "char",
          serialize_str(&str) => "str", serialize_bytes(&[u8]) => "bytes");

    fn serialize_none(self) -> Result<String, SniffError> {
        Ok("None".into())
    }
    fn serialize_some<T: ?Sized + Serialize>(self, v: &T) -> Result<String, SniffError> {
        v.serialize(Sniffer)
    }
    fn serialize_unit(self) -> Result<String, SniffError> {
        Ok("()".into())
    }
    fn serialize_unit_struct(self, name: &'static str) -> Result<String, SniffError> {
        Ok(name.into())
    }
    fn serialize_unit_variant(self, name: &'static str, _i: u32, variant: &'static str) -> Result<String, SniffError> {
        Ok(format!("{name}::{variant}"))
    }
    fn serialize_newtype_struct<T: ?Sized + Serialize>(self, name: &'static str, _v: &T) -> Result<String, SniffError> {
        Ok(name.into())
    }
    fn serialize_newtype_variant<T: ?Sized + Serialize>(self, name: &'static str, _i: u32, variant: &'static str, _v: &T) -> Result<String, SniffError> {
        Ok(format!("{name}::{variant}"))
    }
    fn serialize_seq(self, _len: Option<usize>) -> Result<Named, SniffError> {
        Ok(Named("[seq]".into()))
    }
    fn serialize_tuple(self, _len: usize) -> Result<Named, SniffError> {
        Ok(Named("(tuple)".into()))
    }
    fn serialize_tuple_struct(self, name: &'static str, _len: usize) -> Result<Named, SniffError> {
        Ok(Named(name.into()))
    }
    fn serialize_tuple_variant(self, name: &'static str, _i: u32, variant: &'static str, _len: usize) -> Result<Named, SniffError> {
        Ok(Named(format!("{name}::{variant}")))
    }
    fn serialize_map(self, _len: Option<usize>) -> Result<Named, SniffError> {
        Ok(Named("{map}".into()))
    }
    fn serialize_struct(self, name: &'static str, _len: usize) -> Result<Named, SniffError> {
        Ok(Named(name.into()))
    }
    fn serialize_struct_variant(self, name: &'static str, _i: u32, variant: &'static str, _len: usize) -> Result<Named, SniffError> {
        Ok(Named(format!("{name}::{variant}")))
    }
}

macro_rules! compound {
    ($tr:ident, $m:ident $(, $k:ident)?) => {
        impl ser::$tr for Named {
            type Ok = String;
            type Error = SniffError;
            fn $m<T: ?Sized + Serialize>(&mut self, $($k: &'static str,)? _v: &T) -> Result<(), SniffError> {
                $(let _ = $k;)?
                Ok(())
            }
            fn end(self) -> Result<String, SniffError> {
                Ok(self.0)
            }
        }
    };
}
compound!(SerializeSeq, serialize_element);
compound!(SerializeTuple, serialize_element);
compound!(SerializeTupleStruct, serialize_field);
compound!(SerializeTupleVariant, serialize_field);
compound!(SerializeStruct, serialize_field, key);
compound!(SerializeStructVariant, serialize_field, key);

impl ser::SerializeMap for Named {
    type Ok = String;
    type Error = SniffError;
    fn serialize_key<T: ?Sized + Serialize>(&mut self, _k: &T) -> Result<(), SniffError> {
        Ok(())
    }
    fn serialize_value<T: ?Sized + Serialize>(&mut self, _v: &T) -> Result<(), SniffError> {
        Ok(())
    }
    fn end(self) -> Result<String, SniffError> {
        Ok(self.0)
    }
}

/// Outermost type name of anything serialisable (`"[seq]"` for a transparent `Block`).
pub fn name_of<T: ?Sized + Serialize>(v: &T) -> String {
    v.serialize(Sniffer).unwrap_or_else(|e| format!("<unserialisable: {e}>"))
}
