//! Small utilities: PRNG, hashing, panic capture, paths.
use std::{
    cell::RefCell,
    collections::hash_map::DefaultHasher,
    hash::{Hash, Hasher},
    panic::{catch_unwind, AssertUnwindSafe},
    path::PathBuf,
    sync::Once,
};

/// SplitMix64: seeds everything, so every random choice is a function of `VERIF_SEED`.
#[derive(Clone, Debug)]
pub struct SplitMix64(pub u64);

impl SplitMix64 {
    pub fn new(seed: u64) -> Self {
        Self(seed)
    }
    pub fn next_u64(&mut self) -> u64 {
        self.0 = self.0.wrapping_add(0x9E3779B97F4A7C15);
        let mut z = self.0;
        z = (z ^ (z >> 30)).wrapping_mul(0xBF58476D1CE4E5B9);
        z = (z ^ (z >> 27)).wrapping_mul(0x94D049BB133111EB);
        z ^ (z >> 31)
    }
    /// Uniform in `0..n` (n > 0).
    pub fn below(&mut self, n: u64) -> u64 {
        debug_assert!(n > 0);
        self.next_u64() % n
    }
    pub fn usize(&mut self, n: usize) -> usize {
        self.below(n as u64) as usize
    }
    pub fn range(&mut self, lo: i64, hi: i64) -> i64 {
        lo + self.below((hi - lo + 1) as u64) as i64
    }
    pub fn f64(&mut self) -> f64 {
        (self.next_u64() >> 11) as f64 / (1u64 << 53) as f64
    }
    pub fn f64_in(&mut self, lo: f64, hi: f64) -> f64 {
        lo + (hi - lo) * self.f64()
    }
    pub fn bool(&mut self) -> bool {
        self.next_u64() & 1 == 1
    }
    pub fn chance(&mut self, p: f64) -> bool {
        self.f64() < p
    }
    pub fn pick<'a, T>(&mut self, xs: &'a [T]) -> &'a T {
        &xs[self.usize(xs.len())]
    }
    /// Independent child stream.
    pub fn fork(&mut self, salt: u64) -> Self {
        Self(self.next_u64() ^ salt.wrapping_mul(0xD6E8FEB86659FD93))
    }
    pub fn shuffle<T>(&mut self, xs: &mut [T]) {
        for i in (1..xs.len()).rev() {
            let j = self.usize(i + 1);
            xs.swap(i, j);
        }
    }
}

pub fn hash_of<T: Hash + ?Sized>(t: &T) -> u64 {
    let mut h = DefaultHasher::new();
    t.hash(&mut h);
    h.finish()
}

/// FNV-1a, stable across processes (DefaultHasher::new() is too, but keep this explicit for file names).
pub fn fnv(s: &str) -> u64 {
    let mut h: u64 = 0xcbf29ce484222325;
    for b in s.bytes() {
        h ^= b as u64;
        h = h.wrapping_mul(0x100000001b3);
    }
    h
}

pub fn verif_root() -> PathBuf {
    if let Ok(p) = std::env::var("VERIF_ROOT") {
        return PathBuf::from(p);
    }
    PathBuf::from(env!("CARGO_MANIFEST_DIR")).parent().unwrap().to_path_buf()
}

thread_local! {
    static LAST_PANIC: RefCell<Option<String>> = RefCell::new(None);
    static QUIET: RefCell<u32> = RefCell::new(0);
}
static HOOK: Once = Once::new();

fn install_hook() {
    HOOK.call_once(|| {
        let default = std::panic::take_hook();
        std::panic::set_hook(Box::new(move |info| {
            let quiet = QUIET.with(|q| *q.borrow()) > 0;
            let msg = if let Some(s) = info.payload().downcast_ref::<&str>() {
                s.to_string()
            } else if let Some(s) = info.payload().downcast_ref::<String>() {
                s.clone()
            } else {
                "<non-string panic>".to_string()
            };
            let loc = info
                .location()
                .map(|l| format!("{}:{}", l.file(), l.line()))
                .unwrap_or_default();
            if quiet {
                LAST_PANIC.with(|p| *p.borrow_mut() = Some(format!("{msg} @ {loc}")));
            } else {
                default(info);
            }
        }));
    });
}

/// Runs `f`, turning a panic into `Err(message @ location)` without printing anything.
pub fn catch<T>(f: impl FnOnce() -> T) -> Result<T, String> {
    install_hook();
    QUIET.with(|q| *q.borrow_mut() += 1);
    let r = catch_unwind(AssertUnwindSafe(f));
    QUIET.with(|q| *q.borrow_mut() -= 1);
    match r {
        Ok(v) => Ok(v),
        Err(_) => Err(LAST_PANIC
            .with(|p| p.borrow_mut().take())
            .unwrap_or_else(|| "<panic>".into())),
    }
}

/// Bit pattern helpers for exact float comparison in digests.
pub fn bits(xs: &[f64]) -> Vec<u64> {
    xs.iter().map(|x| x.to_bits()).collect()
}

/// Splits `0..n` into `k` nearly equal contiguous ranges.
pub fn shards(n: usize, k: usize) -> Vec<std::ops::Range<usize>> {
    let k = k.max(1);
    (0..k)
        .map(|i| (i * n / k)..((i + 1) * n / k))
        .filter(|r| !r.is_empty())
        .collect()
}

pub fn num_workers() -> usize {
    std::env::var("VERIF_WORKERS")
        .ok()
        .and_then(|s| s.parse().ok())
        .unwrap_or_else(|| std::thread::available_parallelism().map(|n| n.get()).unwrap_or(4).min(16))
}
