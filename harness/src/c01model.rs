//! C01 — registry vs stack-of-typed-maps model (shared by the native monitor and the Miri binary).
use std::collections::BTreeMap;
use std::ops::{Deref, DerefMut};

use better_any::{Tid, TidAble};
use mahf::{
    state::registry::{Entry, StateError},
    CustomState, State, StateRegistry,
};

use crate::problems::TagP;

pub trait St<'a>: CustomState<'a> + Deref<Target = u32> + DerefMut + Sized {
    fn mk(v: u32, mem: &'a u32) -> Self;
}

macro_rules! static_state {
    ($($n:ident),*) => {$(
        #[derive(Tid, Default)]
        pub struct $n(pub u32);
        impl CustomState<'_> for $n {}
        impl Deref for $n { type Target = u32; fn deref(&self) -> &u32 { &self.0 } }
        impl DerefMut for $n { fn deref_mut(&mut self) -> &mut u32 { &mut self.0 } }
        impl<'a> St<'a> for $n { fn mk(v: u32, _mem: &'a u32) -> Self { $n(v) } }
    )*};
}
static_state!(SA, SB, SC, SD);

/// State type borrowing harness memory (non-`'static` lifetime).
#[derive(Tid)]
pub struct SL<'a> {
    pub r: &'a u32,
    pub v: u32,
}
impl<'a> CustomState<'a> for SL<'a> {}
impl<'a> Deref for SL<'a> {
    type Target = u32;
    fn deref(&self) -> &u32 {
        &self.v
    }
}
impl<'a> DerefMut for SL<'a> {
    fn deref_mut(&mut self) -> &mut u32 {
        &mut self.v
    }
}
impl<'a> St<'a> for SL<'a> {
    fn mk(v: u32, mem: &'a u32) -> Self {
        SL { r: mem, v }
    }
}

pub const NTYPES: usize = 5; // 0 = SL (lifetime), 1..4 = SA..SD

#[macro_export]
macro_rules! dispatch_ty {
    ($ty:expr, $f:ident, $($args:expr),*) => {
        match $ty {
            0 => $f::<$crate::c01model::SL>($($args),*),
            1 => $f::<$crate::c01model::SA>($($args),*),
            2 => $f::<$crate::c01model::SB>($($args),*),
            3 => $f::<$crate::c01model::SC>($($args),*),
            _ => $f::<$crate::c01model::SD>($($args),*),
        }
    };
}

#[derive(Clone, Copy, Debug, PartialEq, Eq, Hash)]
pub enum Op {
    Insert(u8),
    Remove(u8),
    Take(u8),
    SetValue(u8),
    GetMut(u8),
    BorrowValueMut(u8),
    EntryOrInsert(u8),
    EntryOrInsertWith(u8),
    EntryAndModify(u8),
    EntryAndModifyValue(u8),
    EntryOccInsert(u8),
    EntryOccRemove(u8),
    EntryOccGetMut(u8),
    ParentInsert(u8),
    Push,
    Pop,
    /// with_inner_state: insert type into the child, set_value of type 0 through the child, fail?
    WithInner(u8, bool),
    /// write attempts (set_value, try_borrow_value_mut) while a shared guard on the innermost instance is
    /// alive: must be refused and must not fall through to a shadowed outer instance
    GuardedWrite(u8),
    /// `holding::<T>`: the innermost instance is taken out, written through the held reference and put back into
    /// its scope; while it is out, a lookup of T sees the instance it shadowed (or none)
    Holding(u8),
    /// `try_get_multiple_mut::<(T, type 0)>()`: each element resolves to the innermost scope holding it (a repeated
    /// type or a missing one is an error and changes nothing); both are written through the references
    GetMultiple(u8),
}

pub type Model = Vec<BTreeMap<u8, u32>>; // root .. innermost

pub struct Run<'a> {
    pub state: Option<State<'a, TagP>>,
    pub model: Model,
    pub next: u32,
    pub mem: &'a u32,
    pub ntypes: u8,
}

pub type Viol = (String, String);

fn err_class(e: &StateError) -> &'static str {
    match e {
        StateError::NotFound(_) => "NotFound",
        StateError::BorrowConflictImm(..) => "BorrowConflictImm",
        StateError::BorrowConflictMut(..) => "BorrowConflictMut",
        StateError::MultipleBorrowConflict(_) => "MultipleBorrowConflict",
        StateError::RequiredMissing(..) => "RequiredMissing",
    }
}

fn innermost(model: &Model, t: u8) -> Option<usize> {
    (0..model.len()).rev().find(|&k| model[k].contains_key(&t))
}

impl<'a> Run<'a> {
    pub fn new(mem: &'a u32, ntypes: u8) -> Self {
        Self { state: Some(State::new()), model: vec![BTreeMap::new()], next: 100, mem, ntypes }
    }
    fn fresh(&mut self) -> u32 {
        self.next += 1;
        self.next
    }
    fn st(&mut self) -> &mut State<'a, TagP> {
        self.state.as_mut().unwrap()
    }

    /// Applies `op` to the real registry and the model; compares the returned values.
    pub fn step(&mut self, op: Op) -> Result<bool, Viol> {
        match op {
            Op::Insert(t) => dispatch_ty!(t, op_insert, self, t),
            Op::Remove(t) => dispatch_ty!(t, op_remove, self, t, false),
            Op::Take(t) => dispatch_ty!(t, op_remove, self, t, true),
            Op::SetValue(t) => dispatch_ty!(t, op_set_value, self, t),
            Op::GetMut(t) => dispatch_ty!(t, op_get_mut, self, t),
            Op::BorrowValueMut(t) => dispatch_ty!(t, op_borrow_value_mut, self, t),
            Op::EntryOrInsert(t) => dispatch_ty!(t, op_entry, self, t, 0),
            Op::EntryOrInsertWith(t) => dispatch_ty!(t, op_entry, self, t, 1),
            Op::EntryAndModify(t) => dispatch_ty!(t, op_entry, self, t, 2),
            Op::EntryAndModifyValue(t) => dispatch_ty!(t, op_entry, self, t, 3),
            Op::EntryOccInsert(t) => dispatch_ty!(t, op_entry, self, t, 4),
            Op::EntryOccRemove(t) => dispatch_ty!(t, op_entry, self, t, 5),
            Op::EntryOccGetMut(t) => dispatch_ty!(t, op_entry, self, t, 6),
            Op::ParentInsert(t) => dispatch_ty!(t, op_parent_insert, self, t),
            Op::Push => {
                let reg: StateRegistry<'a> = self.state.take().unwrap().into();
                self.state = Some(reg.into_child().into());
                self.model.push(BTreeMap::new());
                Ok(true)
            }
            Op::Pop => self.op_pop(),
            Op::WithInner(t, fail) => dispatch_ty!(t, op_with_inner, self, t, fail),
            Op::GuardedWrite(t) => dispatch_ty!(t, op_guarded_write, self, t),
            Op::Holding(t) => dispatch_ty!(t, op_holding, self, t),
            Op::GetMultiple(t) => dispatch_ty!(t, op_get_multiple, self, t),
        }
    }

    fn op_pop(&mut self) -> Result<bool, Viol> {
        let reg: StateRegistry<'a> = self.state.take().unwrap().into();
        let (parent, child) = reg.into_parent();
        let top = self.model.pop().unwrap();
        // the popped scope holds exactly the entries inserted into it
        let mut msg = None;
        for t in 0..self.ntypes {
            let got = dispatch_ty!(t, top_value, &child);
            let want = top.get(&t).copied();
            if got != want {
                msg = Some(format!("popped scope holds type {t} = {got:?}, model {want:?}"));
            }
        }
        if child.parent().is_some() {
            msg = Some("popped scope still has a parent".into());
        }
        if self.model.is_empty() {
            // popped the root: no parent; continue with the returned map as the new root
            if parent.is_some() {
                msg = Some("into_parent() on the root returned a parent".into());
            }
            self.model.push(top);
            self.state = Some(child.into());
            return match msg {
                Some(m) => Err(("pop-root:wrong".into(), m)),
                None => Ok(false),
            };
        }
        match parent {
            Some(p) => self.state = Some(p.into()),
            None => {
                self.state = Some(State::new());
                self.model = vec![BTreeMap::new()];
                return Err(("pop:parent-lost".into(), "into_parent() on a child scope returned no parent".into()));
            }
        }
        match msg {
            Some(m) => Err(("pop:child-content-wrong".into(), m)),
            None => Ok(true),
        }
    }

    /// Compares the entire real state with the model: every type in every scope, plus every read
    /// accessor from the innermost scope.
    pub fn sweep(&self) -> Option<String> {
        let st = self.state.as_ref().unwrap();
        // scope by scope through the parent chain
        let mut reg: Option<&StateRegistry<'a>> = Some(st);
        let mut k = self.model.len();
        while let Some(r) = reg {
            if k == 0 {
                return Some("real registry is deeper than the model".into());
            }
            k -= 1;
            for t in 0..self.ntypes {
                let got = dispatch_ty!(t, top_value, r);
                let want = self.model[k].get(&t).copied();
                if got != want {
                    return Some(format!("scope {k} (0 = root): type {t} holds {got:?}, model {want:?}"));
                }
            }
            reg = r.parent();
        }
        if k != 0 {
            return Some(format!("real registry has {} scopes fewer than the model", k));
        }
        for t in 0..self.ntypes {
            if let Some(m) = dispatch_ty!(t, read_accessors, self, t) {
                return Some(m);
            }
        }
        None
    }
}

fn top_value<'a, T: St<'a>>(r: &StateRegistry<'a>) -> Option<u32> {
    if r.contains_at_top::<T>() {
        // resolves to this very scope because it holds T at the top
        r.try_get_value::<T>().ok()
    } else {
        None
    }
}

fn read_accessors<'a, T: St<'a>>(run: &Run<'a>, t: u8) -> Option<String> {
    let st = run.state.as_ref().unwrap();
    let depth = run.model.len();
    let at = innermost(&run.model, t);
    let want = at.map(|k| run.model[k][&t]);
    if st.contains::<T>() != want.is_some() {
        return Some(format!("contains::<{t}>() = {}, model {}", st.contains::<T>(), want.is_some()));
    }
    if st.contains_at_top::<T>() != run.model[depth - 1].contains_key(&t) {
        return Some(format!("contains_at_top::<{t}>() disagrees with the model"));
    }
    match (st.find::<T>(), at) {
        (Ok(r), Some(k)) => {
            let mut parents = 0;
            let mut p = r.parent();
            while let Some(x) = p {
                parents += 1;
                p = x.parent();
            }
            if parents != k {
                return Some(format!("find::<{t}>() returned scope {parents}, model says scope {k}"));
            }
        }
        (Err(e), None) => {
            if err_class(&e) != "NotFound" {
                return Some(format!("find::<{t}>() absent: error class {}", err_class(&e)));
            }
        }
        (Ok(_), None) => return Some(format!("find::<{t}>() found an absent type")),
        (Err(e), Some(_)) => return Some(format!("find::<{t}>() failed for a present type: {e}")),
    }
    let got = st.try_borrow::<T>().map(|r| **r).map_err(|e| err_class(&e));
    if got != want.ok_or("NotFound") {
        return Some(format!("try_borrow::<{t}>() = {got:?}, model {want:?}"));
    }
    let got = st.try_get_value::<T>().map_err(|e| err_class(&e));
    if got != want.ok_or("NotFound") {
        return Some(format!("try_get_value::<{t}>() = {got:?}, model {want:?}"));
    }
    let got = st.try_borrow_value::<T>().map(|r| *r).map_err(|e| err_class(&e));
    if got != want.ok_or("NotFound") {
        return Some(format!("try_borrow_value::<{t}>() = {got:?}, model {want:?}"));
    }
    if let Some(w) = want {
        if st.get_value::<T>() != w || **st.borrow::<T>() != w || *st.borrow_value::<T>() != w {
            return Some(format!("panicking read accessors of type {t} disagree with the model value {w}"));
        }
    }
    let req = st.requirements().require::<Run, T>();
    match (req, want) {
        (Ok(()), Some(_)) => {}
        (Err(e), None) if err_class(&e) == "RequiredMissing" => {}
        (r, _) => return Some(format!("require::<{t}>() = {:?}, model present = {}", r.map_err(|e| err_class(&e)), want.is_some())),
    }
    None
}

fn op_insert<'a, T: St<'a>>(run: &mut Run<'a>, t: u8) -> Result<bool, Viol> {
    let v = run.fresh();
    let mem = run.mem;
    let got = run.st().insert(T::mk(v, mem)).map(|x| *x);
    let want = run.model.last_mut().unwrap().insert(t, v);
    if got != want {
        return Err(("insert:wrong-previous".into(), format!("insert::<{t}>({v}) returned {got:?}, model {want:?}")));
    }
    Ok(true)
}

fn op_remove<'a, T: St<'a>>(run: &mut Run<'a>, t: u8, take: bool) -> Result<bool, Viol> {
    let want = innermost(&run.model, t).map(|k| run.model[k].remove(&t).unwrap());
    if take {
        let got = crate::util::catch(|| *run.st().take::<T>());
        match (got, want) {
            (Ok(g), Some(w)) if g == w => Ok(true),
            (Err(_), None) => Ok(false),
            (g, w) => Err(("take:wrong".into(), format!("take::<{t}>() = {g:?}, model {w:?}"))),
        }
    } else {
        let got = run.st().remove::<T>().map(|x| *x).map_err(|e| err_class(&e));
        if got != want.ok_or("NotFound") {
            return Err(("remove:wrong".into(), format!("remove::<{t}>() = {got:?}, model {want:?}")));
        }
        Ok(want.is_some())
    }
}

fn op_set_value<'a, T: St<'a>>(run: &mut Run<'a>, t: u8) -> Result<bool, Viol> {
    let v = run.fresh();
    let got = run.st().set_value::<T>(v);
    let want = innermost(&run.model, t).map(|k| run.model[k].insert(t, v).unwrap());
    if got != want {
        return Err(("set_value:wrong".into(), format!("set_value::<{t}>({v}) returned {got:?}, model {want:?}")));
    }
    Ok(want.is_some())
}

fn op_get_mut<'a, T: St<'a>>(run: &mut Run<'a>, t: u8) -> Result<bool, Viol> {
    let v = run.fresh();
    let got = run.st().get_mut::<T>().map(|r| std::mem::replace(&mut **r, v));
    let want = innermost(&run.model, t).map(|k| run.model[k].insert(t, v).unwrap());
    if got != want {
        return Err(("get_mut:wrong".into(), format!("get_mut::<{t}>() saw {got:?}, model {want:?}")));
    }
    Ok(want.is_some())
}

fn op_borrow_value_mut<'a, T: St<'a>>(run: &mut Run<'a>, t: u8) -> Result<bool, Viol> {
    let v = run.fresh();
    let got = run.st().try_borrow_value_mut::<T>().map(|mut r| std::mem::replace(&mut *r, v)).map_err(|e| err_class(&e));
    let want = innermost(&run.model, t).map(|k| run.model[k].insert(t, v).unwrap());
    if got != want.ok_or("NotFound") {
        return Err(("try_borrow_value_mut:wrong".into(), format!("try_borrow_value_mut::<{t}>() saw {got:?}, model {want:?}")));
    }
    if want.is_some() {
        // the panicking twins see the value just written
        let seen = *run.st().borrow_value_mut::<T>();
        let seen2 = **run.st().borrow_mut::<T>();
        if seen != v || seen2 != v {
            return Err(("borrow_mut:stale".into(), format!("borrow_value_mut/borrow_mut::<{t}>() saw {seen}/{seen2} after writing {v}")));
        }
    }
    Ok(want.is_some())
}

fn op_entry<'a, T: St<'a>>(run: &mut Run<'a>, t: u8, kind: u8) -> Result<bool, Viol> {
    let v = run.fresh();
    let mem = run.mem;
    let at = innermost(&run.model, t);
    let top = run.model.len() - 1;
    let name = ["or_insert", "or_insert_with", "and_modify", "and_modify_value", "occupied.insert", "occupied.remove", "occupied.get/get_mut/into_mut"][kind as usize];
    let entry = run.state.as_mut().unwrap().entry::<T>();
    let occupied = matches!(entry, Entry::Occupied(_));
    if occupied != at.is_some() {
        return Err(("entry:wrong-variant".into(), format!("entry::<{t}>() is {} but the model says {}", if occupied { "Occupied" } else { "Vacant" }, if at.is_some() { "present" } else { "absent" })));
    }
    match kind {
        0 | 1 => {
            let r = if kind == 0 { entry.or_insert(T::mk(v, mem)) } else { entry.or_insert_with(|| T::mk(v, mem)) };
            let got = **r;
            drop(r);
            let want = match at {
                Some(k) => run.model[k][&t],
                None => {
                    run.model[top].insert(t, v);
                    v
                }
            };
            if got != want {
                return Err((format!("entry.{name}:wrong-value"), format!("entry::<{t}>().{name}({v}) yields {got}, model {want}")));
            }
        }
        2 | 3 => {
            let mut seen = None;
            let e = if kind == 2 {
                entry.and_modify(|mut r| {
                    seen = Some(**r);
                    **r = v;
                })
            } else {
                entry.and_modify_value(|x| {
                    seen = Some(*x);
                    *x = v;
                })
            };
            let still = matches!(e, Entry::Occupied(_));
            drop(e);
            let want = at.map(|k| run.model[k].insert(t, v).unwrap());
            if seen != want || still != at.is_some() {
                return Err((format!("entry.{name}:wrong"), format!("entry::<{t}>().{name} saw {seen:?}, model {want:?}")));
            }
        }
        _ => match entry {
            Entry::Occupied(mut e) => {
                let k = at.unwrap();
                let cur = run.model[k][&t];
                match kind {
                    4 => {
                        let old = *e.insert(T::mk(v, mem));
                        run.model[k].insert(t, v);
                        if old != cur {
                            return Err(("entry.occupied.insert:wrong-previous".into(), format!("occupied.insert::<{t}> returned {old}, model {cur}")));
                        }
                    }
                    5 => {
                        let old = *e.remove();
                        run.model[k].remove(&t);
                        if old != cur {
                            return Err(("entry.occupied.remove:wrong".into(), format!("occupied.remove::<{t}> returned {old}, model {cur}")));
                        }
                    }
                    _ => {
                        let g1 = **e.get();
                        let g2 = {
                            let mut m = e.get_mut();
                            let g = **m;
                            **m = v;
                            g
                        };
                        let g3 = **e.into_mut();
                        run.model[k].insert(t, v);
                        if g1 != cur || g2 != cur || g3 != v {
                            return Err(("entry.occupied.get:wrong".into(), format!("occupied get/get_mut/into_mut::<{t}> saw {g1}/{g2}/{g3}, model {cur}/{cur}/{v}")));
                        }
                    }
                }
            }
            Entry::Vacant(e) => {
                let got = **e.insert(T::mk(v, mem));
                run.model[top].insert(t, v);
                if got != v {
                    return Err(("entry.vacant.insert:wrong".into(), format!("vacant.insert::<{t}>({v}) yields {got}")));
                }
            }
        },
    }
    Ok(true)
}

fn op_parent_insert<'a, T: St<'a>>(run: &mut Run<'a>, t: u8) -> Result<bool, Viol> {
    let v = run.fresh();
    let mem = run.mem;
    let depth = run.model.len();
    match run.st().parent_mut() {
        Some(p) => {
            if depth < 2 {
                return Err(("parent_mut:invented".into(), "parent_mut() returned Some on the root scope".into()));
            }
            let got = p.insert(T::mk(v, mem)).map(|x| *x);
            let want = run.model[depth - 2].insert(t, v);
            if got != want {
                return Err(("parent_mut.insert:wrong-previous".into(), format!("parent_mut().insert::<{t}>({v}) returned {got:?}, model {want:?}")));
            }
            Ok(true)
        }
        None => {
            if depth >= 2 {
                return Err(("parent_mut:missing".into(), "parent_mut() returned None in a child scope".into()));
            }
            Ok(false)
        }
    }
}

fn op_guarded_write<'a, T: St<'a>>(run: &mut Run<'a>, t: u8) -> Result<bool, Viol> {
    let v = run.fresh();
    let present = innermost(&run.model, t).is_some();
    let st = run.state.as_ref().unwrap();
    let guard = st.try_borrow::<T>();
    if guard.is_ok() != present {
        return Err(("try_borrow:wrong-presence".into(), format!("try_borrow::<{t}>() ok = {}, model present = {present}", guard.is_ok())));
    }
    let r1 = st.set_value::<T>(v);
    let r2 = st.try_borrow_value_mut::<T>().map(|mut g| std::mem::replace(&mut *g, v)).map_err(|e| err_class(&e));
    let r3 = st.try_borrow_mut::<T>().map(|_| ()).map_err(|e| err_class(&e));
    drop(guard);
    let want = if present { "BorrowConflictMut" } else { "NotFound" };
    if r1.is_some() || r2 != Err(want) || r3 != Err(want) {
        return Err((
            "write-while-shared-guard-alive:not-refused".into(),
            format!("type {t} (present = {present}): set_value = {r1:?}, try_borrow_value_mut = {r2:?}, try_borrow_mut = {r3:?}; expected None / Err({want})"),
        ));
    }
    // the model is unchanged: the sweep that follows checks that no (shadowed) instance was written
    Ok(present)
}

fn op_holding<'a, T: St<'a> + better_any::TidAble<'a>>(run: &mut Run<'a>, t: u8) -> Result<bool, Viol> {
    let v = run.fresh();
    let k = innermost(&run.model, t);
    let shadowed = k.and_then(|k| (0..k).rev().find(|&j| run.model[j].contains_key(&t)).map(|j| run.model[j][&t]));
    let mut seen: Option<(u32, Option<u32>)> = None;
    let res = run.st().holding::<T>(|held, rest| {
        let before = **held;
        **held = v;
        seen = Some((before, rest.try_get_value::<T>().ok()));
        Ok(())
    });
    match (k, res) {
        (None, Err(_)) => Ok(false),
        (None, Ok(())) => Err(("holding:absent-type-invented".into(), format!("holding::<{t}>() ran its closure although no scope holds the type (saw {seen:?})"))),
        (Some(_), Err(e)) => Err(("holding:fails-on-a-present-type".into(), format!("type {t}: {e}"))),
        (Some(k), Ok(())) => {
            let want = (run.model[k][&t], shadowed);
            if seen != Some(want) {
                return Err(("holding:wrong-instance-held-or-not-taken-out".into(), format!("type {t}: closure saw (held value, value visible in the rest) = {seen:?}, model {want:?}")));
            }
            run.model[k].insert(t, v);
            Ok(true)
        }
    }
}

fn op_get_multiple<'a, T: St<'a>>(run: &mut Run<'a>, t: u8) -> Result<bool, Viol> {
    let (v, w) = (run.fresh(), run.fresh());
    let (kt, k0) = (innermost(&run.model, t), innermost(&run.model, 0));
    let want: Result<(u32, u32), &'static str> = if t == 0 {
        Err("MultipleBorrowConflict")
    } else {
        match (kt, k0) {
            (Some(a), Some(b)) => Ok((run.model[a][&t], run.model[b][&0])),
            _ => Err("NotFound"),
        }
    };
    let got = match run.st().try_get_multiple_mut::<(T, SL<'a>)>() {
        Ok((x, y)) => {
            let old = (**x, **y);
            **x = v;
            **y = w;
            Ok(old)
        }
        Err(e) => Err(err_class(&e)),
    };
    if got != want {
        return Err(("get_multiple_mut:wrong".into(), format!("try_get_multiple_mut::<({t}, 0)>() gave {got:?}, model {want:?}")));
    }
    if want.is_ok() {
        run.model[kt.unwrap()].insert(t, v);
        run.model[k0.unwrap()].insert(0, w);
    }
    Ok(want.is_ok())
}

fn op_with_inner<'a, T: St<'a>>(run: &mut Run<'a>, t: u8, fail: bool) -> Result<bool, Viol> {
    let v = run.fresh();
    let w = run.fresh();
    let mem = run.mem;
    let mut inner_seen = None;
    let res = run.st().with_inner_state(|s| {
        s.insert(T::mk(v, mem));
        inner_seen = Some((s.contains_at_top::<T>(), s.try_get_value::<T>().ok()));
        // write through the child to type 0: hits the child's own instance if T is type 0,
        // otherwise the innermost outer instance (if any)
        s.set_value::<SL>(w);
        if fail {
            Err(eyre::eyre!("injected"))
        } else {
            Ok(())
        }
    });
    // model: outer write unless shadowed by the child's insert
    let mut child_model: BTreeMap<u8, u32> = BTreeMap::new();
    child_model.insert(t, v);
    if t == 0 {
        child_model.insert(0, w);
    } else if let Some(k) = innermost(&run.model, 0) {
        run.model[k].insert(0, w);
    }
    if inner_seen != Some((true, Some(v))) {
        return Err(("with_inner_state:child-insert-not-visible".into(), format!("inside the child: {inner_seen:?}")));
    }
    match res {
        Ok(child) => {
            if fail {
                return Err(("with_inner_state:error-swallowed".into(), "closure failed but Ok was returned".into()));
            }
            for ty in 0..run.ntypes {
                let got = dispatch_ty!(ty, top_value, &child);
                let want = child_model.get(&ty).copied();
                if got != want {
                    return Err(("with_inner_state:child-content-wrong".into(), format!("returned child holds type {ty} = {got:?}, model {want:?}")));
                }
            }
        }
        Err(e) => {
            if !fail {
                return Err(("with_inner_state:spurious-error".into(), format!("{e}")));
            }
            if e.to_string() != "injected" {
                return Err(("with_inner_state:wrong-error".into(), format!("{e}")));
            }
        }
    }
    Ok(true)
}

pub fn alphabet(ntypes: u8) -> Vec<Op> {
    let mut v = vec![Op::Push, Op::Pop];
    for t in 0..ntypes {
        v.extend([
            Op::Insert(t),
            Op::Remove(t),
            Op::SetValue(t),
            Op::GetMut(t),
            Op::BorrowValueMut(t),
            Op::EntryOrInsert(t),
            Op::EntryAndModifyValue(t),
            Op::EntryOccInsert(t),
            Op::EntryOccRemove(t),
            Op::ParentInsert(t),
            Op::WithInner(t, false),
            Op::WithInner(t, true),
            Op::GuardedWrite(t),
            Op::Holding(t),
            Op::GetMultiple(t),
        ]);
    }
    v
}

pub fn full_alphabet(ntypes: u8) -> Vec<Op> {
    let mut v = alphabet(ntypes);
    for t in 0..ntypes {
        v.extend([Op::Take(t), Op::EntryOrInsertWith(t), Op::EntryAndModify(t), Op::EntryOccGetMut(t)]);
    }
    v
}

/// Runs one history; `Err((signature, message, index))` at the first divergence.
pub fn run_history(ops: &[Op], ntypes: u8, max_depth: usize) -> Result<RunStats, (String, String, usize)> {
    let mem = 7u32;
    let mut run = Run::new(&mem, ntypes);
    let mut stats = RunStats::default();
    for (i, &op) in ops.iter().enumerate() {
        if op == Op::Push && run.model.len() >= max_depth {
            continue;
        }
        // classify before
        let shadowing = (0..ntypes).any(|t| run.model.iter().filter(|m| m.contains_key(&t)).count() >= 2);
        match run.step(op) {
            Ok(_) => {}
            Err((sig, msg)) => return Err((sig, msg, i)),
        }
        if let Some(msg) = run.sweep() {
            return Err((format!("sweep-after:{}", op_name(op)), msg, i));
        }
        if shadowing {
            stats.ops_under_shadowing += 1;
            match op {
                Op::Remove(_) | Op::Take(_) | Op::EntryOccRemove(_) => stats.removal_under_shadow += 1,
                Op::Pop => stats.pop_with_shadow += 1,
                _ => {}
            }
        }
        stats.max_depth = stats.max_depth.max(run.model.len());
    }
    stats.final_model_hash = crate::util::hash_of(&run.model);
    Ok(stats)
}

#[derive(Default, Clone, Debug)]
pub struct RunStats {
    pub ops_under_shadowing: u64,
    pub removal_under_shadow: u64,
    pub pop_with_shadow: u64,
    pub max_depth: usize,
    pub final_model_hash: u64,
}

pub fn op_name(op: Op) -> &'static str {
    match op {
        Op::Insert(_) => "insert",
        Op::Remove(_) => "remove",
        Op::Take(_) => "take",
        Op::SetValue(_) => "set_value",
        Op::GetMut(_) => "get_mut",
        Op::BorrowValueMut(_) => "borrow_value_mut",
        Op::EntryOrInsert(_) => "entry.or_insert",
        Op::EntryOrInsertWith(_) => "entry.or_insert_with",
        Op::EntryAndModify(_) => "entry.and_modify",
        Op::EntryAndModifyValue(_) => "entry.and_modify_value",
        Op::EntryOccInsert(_) => "entry.occupied.insert",
        Op::EntryOccRemove(_) => "entry.occupied.remove",
        Op::EntryOccGetMut(_) => "entry.occupied.get",
        Op::ParentInsert(_) => "parent_mut.insert",
        Op::Push => "into_child",
        Op::Pop => "into_parent",
        Op::WithInner(..) => "with_inner_state",
        Op::GuardedWrite(_) => "guarded-write",
        Op::Holding(_) => "holding",
        Op::GetMultiple(_) => "get_multiple_mut",
    }
}
