//! Shared machinery of the mahf runtime monitors (see /verif/DESIGN.md).
pub mod c01model;
pub mod c02;
pub mod observe;
pub mod pipelines;
pub mod problems;
pub mod report;
pub mod sniff;
pub mod templates;
pub mod util;
pub mod warm;

pub use report::{Reporter, Tier};
pub use util::*;
