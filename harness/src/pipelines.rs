//! Seeded random operator pipelines (selection x variation/boundary/swarm/diversity x archive x
//! replacement) on the three encodings; shared by C05 (stale-objective audit) and C08 (determinism).
use mahf::{
    components::{archive, boundary, diversity, initialization, mutation, recombination, replacement, selection, swarm},
    conditions::LessThanN,
    Component, Configuration,
};

use crate::{problems::*, util::SplitMix64};

pub fn pick_selection<P: mahf::problems::SingleObjectiveProblem>(rng: &mut SplitMix64, pop: u32) -> (Box<dyn Component<P>>, String) {
    match rng.below(6) {
        0 => (selection::All::new(), "All".into()),
        1 => (selection::FullyRandom::new(pop), format!("FullyRandom({pop})")),
        2 => (selection::Tournament::new(pop, 2), format!("Tournament({pop},2)")),
        3 => (selection::RandomWithoutRepetition::new(pop.min(2)), "RandomWithoutRepetition(<=2)".into()),
        4 => (selection::LinearRank::new(pop), format!("LinearRank({pop})")),
        _ => (selection::ExponentialRank::new(pop, 0.5).unwrap(), format!("ExponentialRank({pop},0.5)")),
    }
}

pub fn pick_replacement<P: mahf::problems::SingleObjectiveProblem>(rng: &mut SplitMix64, pop: u32) -> (Box<dyn Component<P>>, String) {
    match rng.below(5) {
        0 => (replacement::Merge::new(), "Merge".into()),
        1 => (replacement::Generational::new(pop), "Generational".into()),
        2 => (replacement::MuPlusLambda::new(pop), format!("MuPlusLambda({pop})")),
        3 => (replacement::RandomReplacement::new(pop), format!("RandomReplacement({pop})")),
        _ => (replacement::MuPlusLambda::new(pop + 2), format!("MuPlusLambda({})", pop + 2)),
    }
}

pub fn rate(rng: &mut SplitMix64) -> f64 {
    *rng.pick(&[0.0, 0.3, 1.0])
}

pub fn assemble<P: mahf::problems::SingleObjectiveProblem>(
    rng: &mut SplitMix64,
    init: Box<dyn Component<P>>,
    pop: u32,
    variations: Vec<(Box<dyn Component<P>>, String)>,
    passes: u32,
    mut desc: Vec<String>,
) -> (Configuration<P>, String) {
    let (sel, sd) = pick_selection::<P>(rng, pop);
    let (rep_, rd) = pick_replacement::<P>(rng, pop);
    let use_archive = rng.chance(0.5);
    let archive_k = 1 + rng.usize(3);
    let reinsertion = rng.chance(0.5);
    let mid_eval = rng.chance(0.3);
    desc.push(format!("while iterations<{passes} {{ {sd};"));
    let nvar = variations.len();
    let mut body: Vec<Box<dyn Component<P>>> = vec![sel];
    for (k, (c, d)) in variations.into_iter().enumerate() {
        body.push(c);
        desc.push(d);
        if mid_eval && k + 1 < nvar && k == 0 {
            body.push(mahf::components::evaluation::PopulationEvaluator::new());
            desc.push("evaluate".into());
        }
    }
    body.push(mahf::components::evaluation::PopulationEvaluator::new());
    body.push(mahf::components::evaluation::BestIndividualUpdate::new());
    desc.push("evaluate; update_best".into());
    if use_archive {
        body.push(archive::ElitistArchiveUpdate::new(archive_k));
        desc.push(format!("ElitistArchiveUpdate({archive_k})"));
    }
    body.push(rep_);
    desc.push(rd);
    if use_archive && reinsertion {
        body.push(archive::ElitistArchiveIntoPopulation::new());
        desc.push("ElitistArchiveIntoPopulation".into());
    }
    desc.push("}".into());
    let cfg = Configuration::builder()
        .do_(init)
        .evaluate()
        .update_best_individual()
        .do_(mahf::components::Loop::new(LessThanN::iterations(passes), body))
        .build();
    (cfg, desc.join(" "))
}

pub fn real_pipeline(rng: &mut SplitMix64) -> (Configuration<Real>, String) {
    let pop = 2 + rng.below(7) as u32;
    let n = 1 + rng.usize(3);
    let mut vars: Vec<(Box<dyn Component<Real>>, String)> = Vec::new();
    for k in 0..n {
        let r = rate(rng);
        let both = rng.bool();
        let v: (Box<dyn Component<Real>>, String) = match rng.below(if k == 0 { 17 } else { 16 }) {
            0 => (mutation::NormalMutation::new(0.3, r), format!("NormalMutation(0.3,{r})")),
            1 => (mutation::UniformMutation::new(0.5, r), format!("UniformMutation(0.5,{r})")),
            2 => (mutation::PartialRandomSpread::new(r), format!("PartialRandomSpread({r})")),
            3 => (mutation::ScrambleMutation::new(r), format!("ScrambleMutation({r})")),
            4 => (recombination::UniformCrossover::new(r, both), format!("UniformCrossover({r},{both})")),
            5 => (recombination::NPointCrossover::new(1, r, both), format!("NPointCrossover(1,{r},{both})")),
            6 => (recombination::ArithmeticCrossover::new(r, both), format!("ArithmeticCrossover({r},{both})")),
            7 => (boundary::Saturation::new(), "Saturation".into()),
            8 => (boundary::Toroidal::new(), "Toroidal".into()),
            9 => (boundary::Mirror::new(), "Mirror".into()),
            10 => (boundary::CompleteOneTailedNormalCorrection::new(), "CompleteOneTailedNormalCorrection".into()),
            11 => (mahf::components::utils::populations::DuplicatePopulation::new(), "DuplicatePopulation".into()),
            12 => (diversity::DimensionWiseDiversity::new(), "DimensionWiseDiversity".into()),
            13 => (diversity::PairwiseDistanceDiversity::new(), "PairwiseDistanceDiversity".into()),
            14 => (diversity::TrueDiversity::new(), "TrueDiversity".into()),
            15 => (diversity::DistanceToAveragePointDiversity::new(), "DistanceToAveragePointDiversity".into()),
            _ => (swarm::bh::BlackHoleParticlesUpdate::new(), "BlackHoleParticlesUpdate".into()),
        };
        vars.push(v);
    }
    let passes = 1 + rng.below(5) as u32;
    assemble(rng, initialization::RandomSpread::new(pop), pop, vars, passes, vec![format!("RandomSpread({pop}); evaluate; update_best;")])
}

pub fn bits_pipeline(rng: &mut SplitMix64) -> (Configuration<Bits>, String) {
    let pop = 2 + rng.below(7) as u32;
    let n = 1 + rng.usize(3);
    let mut vars: Vec<(Box<dyn Component<Bits>>, String)> = Vec::new();
    for _ in 0..n {
        let r = rate(rng);
        let both = rng.bool();
        let v: (Box<dyn Component<Bits>>, String) = match rng.below(5) {
            0 => (mutation::BitFlipMutation::new(r), format!("BitFlipMutation({r})")),
            1 => (mutation::PartialRandomBitstring::new(0.5, r), format!("PartialRandomBitstring(0.5,{r})")),
            2 => (mutation::ScrambleMutation::new(r), format!("ScrambleMutation({r})")),
            3 => (recombination::UniformCrossover::new(r, both), format!("UniformCrossover({r},{both})")),
            _ => (recombination::NPointCrossover::new(1, r, both), format!("NPointCrossover(1,{r},{both})")),
        };
        vars.push(v);
    }
    let passes = 1 + rng.below(5) as u32;
    assemble(rng, initialization::RandomBitstring::new_uniform(pop), pop, vars, passes, vec![format!("RandomBitstring({pop}); evaluate; update_best;")])
}

pub fn perm_pipeline(rng: &mut SplitMix64, dim: usize) -> (Configuration<Perm>, String) {
    let pop = 2 + rng.below(7) as u32;
    let n = 1 + rng.usize(3);
    let mut vars: Vec<(Box<dyn Component<Perm>>, String)> = Vec::new();
    for _ in 0..n {
        let r = rate(rng);
        let both = rng.bool();
        let k = 2 + rng.below(dim as u64 - 1) as u32;
        let v: (Box<dyn Component<Perm>>, String) = match rng.below(6) {
            0 => (mutation::SwapMutation::new(k).unwrap(), format!("SwapMutation({k})")),
            1 => (mutation::common::InversionMutation::new::<Perm, usize>(), "InversionMutation".into()),
            2 => (mutation::common::InsertionMutation::new(), "InsertionMutation".into()),
            3 => (mutation::common::TranslocationMutation::new(), "TranslocationMutation".into()),
            4 => (mutation::ScrambleMutation::new(r), format!("ScrambleMutation({r})")),
            _ => (recombination::CycleCrossover::new(r, both), format!("CycleCrossover({r},{both})")),
        };
        vars.push(v);
    }
    let passes = 1 + rng.below(5) as u32;
    assemble(rng, initialization::RandomPermutation::new(pop), pop, vars, passes, vec![format!("RandomPermutation({pop}); evaluate; update_best;")])
}

