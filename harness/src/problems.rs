//! Harness problems with an instrumented objective function.
//!
//! `f_pure` is the pure objective; `objective()` = `f_pure` + call counter + call log + optional
//! schedule perturbation. Monitors recompute expectations with `f_pure`, so auditing never disturbs
//! the counters it audits.
use std::{
    ops::Range,
    sync::{
        atomic::{AtomicBool, AtomicU64, Ordering},
        Mutex,
    },
};

use mahf::{
    problems::{
        KnownOptimumProblem, LimitedVectorProblem, ObjectiveFunction, TravellingSalespersonProblem,
        VectorProblem,
    },
    Problem, SingleObjective,
};

use crate::util::hash_of;

#[derive(Clone, Debug)]
pub struct CallRecord {
    pub seq: u64,
    pub thread: u64,
    pub sol_hash: u64,
    pub value: f64,
}

thread_local! {
    static THREAD_ID: u64 = {
        static NEXT: AtomicU64 = AtomicU64::new(1);
        NEXT.fetch_add(1, Ordering::Relaxed)
    };
}

pub fn thread_id() -> u64 {
    THREAD_ID.with(|t| *t)
}

/// Call counter + log + schedule perturbation shared by all harness problems.
#[derive(Default)]
pub struct Instr {
    calls: AtomicU64,
    log: Mutex<Vec<CallRecord>>,
    logging: AtomicBool,
    perturb: AtomicU64,
    nan_inputs: AtomicU64,
}

impl Instr {
    pub fn new() -> Self {
        let i = Self::default();
        i.logging.store(true, Ordering::Relaxed);
        i
    }
    pub fn calls(&self) -> u64 {
        self.calls.load(Ordering::SeqCst)
    }
    pub fn log_len(&self) -> usize {
        self.log.lock().unwrap().len()
    }
    pub fn log_from(&self, start: usize) -> Vec<CallRecord> {
        self.log.lock().unwrap()[start..].to_vec()
    }
    pub fn min_value(&self) -> Option<f64> {
        self.log.lock().unwrap().iter().map(|r| r.value).fold(None, |m, v| match m {
            None => Some(v),
            Some(m) => Some(if v < m { v } else { m }),
        })
    }
    pub fn reset(&self) {
        self.calls.store(0, Ordering::SeqCst);
        self.log.lock().unwrap().clear();
        self.nan_inputs.store(0, Ordering::SeqCst);
    }
    /// 0 disables; any other nonce selects a deterministic latency pattern per (solution, nonce).
    pub fn set_perturb(&self, nonce: u64) {
        self.perturb.store(nonce, Ordering::SeqCst);
    }
    pub fn set_logging(&self, on: bool) {
        self.logging.store(on, Ordering::SeqCst);
    }
    pub fn nan_inputs(&self) -> u64 {
        self.nan_inputs.load(Ordering::SeqCst)
    }
    fn record(&self, sol_hash: u64, value: f64) {
        let nonce = self.perturb.load(Ordering::Relaxed);
        if nonce != 0 {
            match hash_of(&(sol_hash, nonce)) % 8 {
                0..=2 => {}
                3 | 4 => std::thread::yield_now(),
                5 | 6 => {
                    let mut x = sol_hash | 1;
                    for _ in 0..(200 + (sol_hash % 3000)) {
                        x = x.wrapping_mul(6364136223846793005).wrapping_add(1442695040888963407);
                    }
                    std::hint::black_box(x);
                }
                _ => std::thread::sleep(std::time::Duration::from_micros(30 + sol_hash % 100)),
            }
        }
        let seq = self.calls.fetch_add(1, Ordering::SeqCst);
        if self.logging.load(Ordering::Relaxed) {
            self.log.lock().unwrap().push(CallRecord {
                seq,
                thread: thread_id(),
                sol_hash,
                value,
            });
        }
    }
}

fn so(v: f64) -> SingleObjective {
    SingleObjective::try_from(v).expect("harness objective functions never return NaN or -inf")
}

pub fn hash_f64s(xs: &[f64]) -> u64 {
    hash_of(&xs.iter().map(|x| x.to_bits()).collect::<Vec<_>>())
}

// ------------------------------------------------------------------------------------------------

#[derive(Clone, Copy, Debug, PartialEq, Eq, serde::Serialize)]
pub enum RealFn {
    Sphere,
    ShiftedSphere,
    Rastrigin,
    /// Piecewise constant: many ties.
    Plateau,
    /// `+inf` on part of the domain (x[0] > midpoint), sphere elsewhere.
    InfPart,
    /// Sphere minus 5: negative values occur.
    NegSphere,
    /// `+inf` everywhere: every solution is infeasible (penalised), everything ties.
    AllInf,
    /// Sphere plus 250: a known optimum far from zero.
    OffsetSphere,
    /// Sum of |x_i|: tells positions apart at every scale (1e-170 and 1e-300 have different values; a sphere squares both to 0).
    AbsSum,
}

pub const REAL_FNS: [RealFn; 6] = [
    RealFn::Sphere,
    RealFn::ShiftedSphere,
    RealFn::Rastrigin,
    RealFn::Plateau,
    RealFn::InfPart,
    RealFn::NegSphere,
];

pub struct Real {
    pub domains: Vec<(f64, f64)>,
    pub f: RealFn,
    pub instr: Instr,
}

impl Real {
    pub fn new(dim: usize, lo: f64, hi: f64, f: RealFn) -> Self {
        Self {
            domains: vec![(lo, hi); dim],
            f,
            instr: Instr::new(),
        }
    }
    pub fn with_domains(domains: Vec<(f64, f64)>, f: RealFn) -> Self {
        Self {
            domains,
            f,
            instr: Instr::new(),
        }
    }
    pub fn f_pure(&self, x: &[f64]) -> f64 {
        let v = match self.f {
            RealFn::Sphere => x.iter().map(|v| v * v).sum::<f64>(),
            RealFn::NegSphere => x.iter().map(|v| v * v).sum::<f64>() - 5.0,
            RealFn::ShiftedSphere => x.iter().enumerate().map(|(i, v)| (v - 0.25 * (i as f64 + 1.0)).powi(2)).sum::<f64>(),
            RealFn::Rastrigin => {
                10.0 * x.len() as f64
                    + x.iter().map(|v| v * v - 10.0 * (2.0 * std::f64::consts::PI * v).cos()).sum::<f64>()
            }
            RealFn::Plateau => x.iter().map(|v| (v.abs() * 2.0).floor()).sum::<f64>(),
            RealFn::AllInf => f64::INFINITY,
            RealFn::AbsSum => x.iter().map(|v| v.abs()).sum::<f64>(),
            RealFn::OffsetSphere => x.iter().map(|v| v * v).sum::<f64>() + 250.0,
            RealFn::InfPart => {
                let mid = self.domains.first().map(|d| (d.0 + d.1) / 2.0).unwrap_or(0.0);
                if x.first().map(|v| *v > mid + 0.5 * (self.domains[0].1 - mid)).unwrap_or(false) {
                    f64::INFINITY
                } else {
                    x.iter().map(|v| v * v).sum::<f64>()
                }
            }
        };
        if v.is_nan() || v == f64::NEG_INFINITY {
            self.instr.nan_inputs.fetch_add(1, Ordering::Relaxed);
            f64::INFINITY
        } else {
            v
        }
    }
}

impl Problem for Real {
    type Encoding = Vec<f64>;
    type Objective = SingleObjective;
    fn name(&self) -> &str {
        "verif_real"
    }
}
impl VectorProblem for Real {
    type Element = f64;
    fn dimension(&self) -> usize {
        self.domains.len()
    }
}
impl LimitedVectorProblem for Real {
    fn domain(&self) -> Vec<Range<f64>> {
        self.domains.iter().map(|d| d.0..d.1).collect()
    }
}
impl ObjectiveFunction for Real {
    fn objective(&self, solution: &Vec<f64>) -> SingleObjective {
        let v = self.f_pure(solution);
        self.instr.record(hash_f64s(solution), v);
        so(v)
    }
}
impl KnownOptimumProblem for Real {
    fn known_optimum(&self) -> SingleObjective {
        so(match self.f {
            RealFn::NegSphere => -5.0,
            RealFn::AllInf => f64::INFINITY,
            RealFn::OffsetSphere => 250.0,
            _ => 0.0,
        })
    }
}

// ------------------------------------------------------------------------------------------------

#[derive(Clone, Copy, Debug, PartialEq, Eq, serde::Serialize)]
pub enum BitFn {
    /// Number of `false` bits (minimised by all-true).
    OneMax,
    /// Deceptive trap.
    Trap,
}

pub struct Bits {
    pub dim: usize,
    pub f: BitFn,
    pub instr: Instr,
}

impl Bits {
    pub fn new(dim: usize, f: BitFn) -> Self {
        Self { dim, f, instr: Instr::new() }
    }
    pub fn f_pure(&self, x: &[bool]) -> f64 {
        let ones = x.iter().filter(|b| **b).count() as f64;
        let n = x.len() as f64;
        match self.f {
            BitFn::OneMax => n - ones,
            BitFn::Trap => {
                if ones == n {
                    0.0
                } else {
                    1.0 + ones
                }
            }
        }
    }
}
impl Problem for Bits {
    type Encoding = Vec<bool>;
    type Objective = SingleObjective;
    fn name(&self) -> &str {
        "verif_bits"
    }
}
impl VectorProblem for Bits {
    type Element = bool;
    fn dimension(&self) -> usize {
        self.dim
    }
}
impl ObjectiveFunction for Bits {
    fn objective(&self, solution: &Vec<bool>) -> SingleObjective {
        let v = self.f_pure(solution);
        self.instr.record(hash_of(solution), v);
        so(v)
    }
}
impl KnownOptimumProblem for Bits {
    fn known_optimum(&self) -> SingleObjective {
        so(0.0)
    }
}

// ------------------------------------------------------------------------------------------------

/// Permutation problem: total displacement `sum |p[i] - i|` (+ a weighted term to break symmetry).
pub struct Perm {
    pub dim: usize,
    pub instr: Instr,
}

impl Perm {
    pub fn new(dim: usize) -> Self {
        Self { dim, instr: Instr::new() }
    }
    pub fn f_pure(&self, x: &[usize]) -> f64 {
        x.iter().enumerate().map(|(i, &p)| ((p as f64) - (i as f64)).abs() * (1.0 + 0.01 * i as f64)).sum()
    }
}
impl Problem for Perm {
    type Encoding = Vec<usize>;
    type Objective = SingleObjective;
    fn name(&self) -> &str {
        "verif_perm"
    }
}
impl VectorProblem for Perm {
    type Element = usize;
    fn dimension(&self) -> usize {
        self.dim
    }
}
impl ObjectiveFunction for Perm {
    fn objective(&self, solution: &Vec<usize>) -> SingleObjective {
        let v = self.f_pure(solution);
        self.instr.record(hash_of(solution), v);
        so(v)
    }
}
impl KnownOptimumProblem for Perm {
    fn known_optimum(&self) -> SingleObjective {
        so(0.0)
    }
}

// ------------------------------------------------------------------------------------------------

#[derive(Clone, Copy, Debug, PartialEq, Eq, serde::Serialize)]
pub enum DistKind {
    Random,
    Clustered,
    /// Distances spanning 1e-6 .. 1e6.
    VeryUnequal,
}

pub struct Tsp {
    pub n: usize,
    pub dist: Vec<f64>,
    pub kind: DistKind,
    pub instr: Instr,
}

impl Tsp {
    pub fn new(n: usize, kind: DistKind, seed: u64) -> Self {
        let mut rng = crate::util::SplitMix64::new(seed ^ 0x7591);
        let mut dist = vec![0.0; n * n];
        for i in 0..n {
            for j in (i + 1)..n {
                let d = match kind {
                    DistKind::Random => 1.0 + 99.0 * rng.f64(),
                    DistKind::Clustered => {
                        if (i < n / 2) == (j < n / 2) {
                            1.0 + rng.f64()
                        } else {
                            100.0 + 10.0 * rng.f64()
                        }
                    }
                    DistKind::VeryUnequal => 10f64.powf(rng.f64_in(-6.0, 6.0)),
                };
                dist[i * n + j] = d;
                dist[j * n + i] = d;
            }
        }
        Self { n, dist, kind, instr: Instr::new() }
    }
    pub fn d(&self, a: usize, b: usize) -> f64 {
        self.dist[a * self.n + b]
    }
    /// Closed tour length.
    pub fn f_pure(&self, x: &[usize]) -> f64 {
        let mut s = 0.0;
        for w in x.windows(2) {
            s += self.d(w[0], w[1]);
        }
        if x.len() > 1 {
            s += self.d(x[x.len() - 1], x[0]);
        }
        s
    }
}
impl Problem for Tsp {
    type Encoding = Vec<usize>;
    type Objective = SingleObjective;
    fn name(&self) -> &str {
        "verif_tsp"
    }
}
impl VectorProblem for Tsp {
    type Element = usize;
    fn dimension(&self) -> usize {
        self.n
    }
}
impl TravellingSalespersonProblem for Tsp {
    fn distance(&self, edge: (usize, usize)) -> f64 {
        self.d(edge.0, edge.1)
    }
}
impl ObjectiveFunction for Tsp {
    fn objective(&self, solution: &Vec<usize>) -> SingleObjective {
        let v = self.f_pure(solution);
        self.instr.record(hash_of(solution), v);
        so(v)
    }
}
impl KnownOptimumProblem for Tsp {
    fn known_optimum(&self) -> SingleObjective {
        so(0.0)
    }
}

// ------------------------------------------------------------------------------------------------

/// Problem whose solutions are bare tags: used wherever the monitors need to know *which*
/// individual an operation returned (stack, selection, replacement, best-so-far).
pub struct TagP;

impl Problem for TagP {
    type Encoding = u32;
    type Objective = SingleObjective;
    fn name(&self) -> &str {
        "verif_tag"
    }
}

/// So that evaluation steps can be run on tagged populations: f(tag) = tag / 2.
impl ObjectiveFunction for TagP {
    fn objective(&self, solution: &u32) -> SingleObjective {
        so(*solution as f64 * 0.5)
    }
}

pub fn tagged(tag: u32, objective: Option<f64>) -> mahf::Individual<TagP> {
    match objective {
        Some(v) => mahf::Individual::new(tag, so(v)),
        None => mahf::Individual::new_unevaluated(tag),
    }
}

/// Uniform access to instrumentation and the pure objective for generic monitors.
/// (`Clone` because `Configuration<P>: Clone` is derived and therefore demands `P: Clone`.)
pub trait Instrumented: Problem<Objective = SingleObjective> + ObjectiveFunction + Sync + Clone {
    fn instr(&self) -> &Instr;
    fn pure(&self, solution: &Self::Encoding) -> f64;
    fn sol_hash(solution: &Self::Encoding) -> u64;
    fn sol_json(solution: &Self::Encoding) -> serde_json::Value;
    /// Another instance of the same problem type and dimension on which the same configuration object can be
    /// run as well, but which differs in what operators may cache from a problem (domain bounds); None if the
    /// type has nothing of that kind.
    fn sibling(&self) -> Option<Self> {
        None
    }
}

impl Instrumented for Real {
    fn instr(&self) -> &Instr {
        &self.instr
    }
    fn pure(&self, s: &Vec<f64>) -> f64 {
        self.f_pure(s)
    }
    fn sol_hash(s: &Vec<f64>) -> u64 {
        hash_f64s(s)
    }
    fn sol_json(s: &Vec<f64>) -> serde_json::Value {
        serde_json::json!(s.iter().map(|x| format!("{x:e}")).collect::<Vec<_>>())
    }
    fn sibling(&self) -> Option<Self> {
        // same dimension, every domain moved and shrunk to a tenth: a repair against these bounds changes almost every coordinate
        Some(Real::with_domains(self.domains.iter().map(|&(lo, hi)| (hi + 1.0, hi + 1.0 + (hi - lo) / 10.0)).collect(), self.f))
    }
}
impl Instrumented for Bits {
    fn instr(&self) -> &Instr {
        &self.instr
    }
    fn pure(&self, s: &Vec<bool>) -> f64 {
        self.f_pure(s)
    }
    fn sol_hash(s: &Vec<bool>) -> u64 {
        hash_of(s)
    }
    fn sol_json(s: &Vec<bool>) -> serde_json::Value {
        serde_json::json!(s.iter().map(|b| if *b { '1' } else { '0' }).collect::<String>())
    }
}
impl Instrumented for Perm {
    fn instr(&self) -> &Instr {
        &self.instr
    }
    fn pure(&self, s: &Vec<usize>) -> f64 {
        self.f_pure(s)
    }
    fn sol_hash(s: &Vec<usize>) -> u64 {
        hash_of(s)
    }
    fn sol_json(s: &Vec<usize>) -> serde_json::Value {
        serde_json::json!(s)
    }
}
impl Instrumented for Tsp {
    fn sibling(&self) -> Option<Self> {
        // same number of cities, the distances reversed: the far cities of this instance are the near ones of the sibling
        let mx = self.dist.iter().cloned().fold(0.0f64, f64::max);
        let n = self.n;
        let dist = (0..n * n).map(|k| if k / n == k % n { 0.0 } else { mx + 1.0 - self.dist[k] }).collect();
        Some(Tsp { n, dist, kind: self.kind, instr: Instr::new() })
    }
    fn instr(&self) -> &Instr {
        &self.instr
    }
    fn pure(&self, s: &Vec<usize>) -> f64 {
        self.f_pure(s)
    }
    fn sol_hash(s: &Vec<usize>) -> u64 {
        hash_of(s)
    }
    fn sol_json(s: &Vec<usize>) -> serde_json::Value {
        serde_json::json!(s)
    }
}

impl Clone for Real {
    fn clone(&self) -> Self {
        Self { domains: self.domains.clone(), f: self.f, instr: Instr::new() }
    }
}
impl Clone for Bits {
    fn clone(&self) -> Self {
        Self { dim: self.dim, f: self.f, instr: Instr::new() }
    }
}
impl Clone for Perm {
    fn clone(&self) -> Self {
        Self { dim: self.dim, instr: Instr::new() }
    }
}
impl Clone for Tsp {
    fn clone(&self) -> Self {
        Self { n: self.n, dist: self.dist.clone(), kind: self.kind, instr: Instr::new() }
    }
}
