//! Step observer plumbing (hook `mahf::verif`, cfg(mahf_verif)) and state walkers.
use mahf::{
    components::{archive::ElitistArchive, misc::cro::ChemicalReaction, swarm::pso},
    identifier::Global,
    problems::SingleObjectiveProblem,
    state::{common, StateRegistry},
    verif::{StepEvent, StepObserver, StepObserverSlot},
    Individual, Problem, State,
};

pub struct FnObserver<F>(pub F);

impl<P, F> StepObserver<P> for FnObserver<F>
where
    P: Problem,
    F: FnMut(StepEvent<'_, P>, &P, &State<P>) + Send,
{
    fn on_event(&mut self, event: StepEvent<'_, P>, problem: &P, state: &State<P>) {
        (self.0)(event, problem, state)
    }
}

/// Installs `f` as the step observer of `state` (call from `optimize_with`'s `init_state`).
pub fn install<'a, P: Problem>(
    state: &mut State<'a, P>,
    f: impl FnMut(StepEvent<'_, P>, &P, &State<P>) + Send + 'a,
) {
    state.insert(StepObserverSlot::<'a, P>(Box::new(FnObserver(f))));
}

/// Calls `f(registry, depth)` for the innermost scope (depth 0) and every ancestor.
pub fn for_each_scope<'s, 'a>(state: &'s StateRegistry<'a>, mut f: impl FnMut(&'s StateRegistry<'a>, usize)) {
    let mut reg = Some(state);
    let mut depth = 0;
    while let Some(r) = reg {
        f(r, depth);
        reg = r.parent();
        depth += 1;
    }
}

pub fn scope_depth(state: &StateRegistry<'_>) -> usize {
    let mut n = 0;
    for_each_scope(state, |_, _| n += 1);
    n
}

/// Visits every individual held anywhere in the state: the population stack and all memory states
/// (best-so-far, elitist archive, PSO personal/global bests, CRO molecule bests), in every scope.
/// Returns the names of locations that could not be inspected because they were mutably borrowed.
pub fn for_each_individual<P: SingleObjectiveProblem>(
    state: &State<P>,
    mut f: impl FnMut(&str, usize, &Individual<P>),
) -> Vec<&'static str> {
    let mut skipped = Vec::new();
    for_each_scope(state, |reg, depth| {
        if reg.contains_at_top::<common::Populations<P>>() {
            match reg.try_borrow::<common::Populations<P>>() {
                Ok(pops) => {
                    let mut d = 0;
                    while let Some(pop) = pops.try_peek(d) {
                        for ind in pop {
                            f("populations", depth, ind);
                        }
                        d += 1;
                    }
                }
                Err(_) => skipped.push("populations"),
            }
        }
        if reg.contains_at_top::<common::BestIndividual<P>>() {
            match reg.try_borrow::<common::BestIndividual<P>>() {
                Ok(b) => {
                    if let Some(ind) = b.as_ref() {
                        f("best_individual", depth, ind);
                    }
                }
                Err(_) => skipped.push("best_individual"),
            }
        }
        if reg.contains_at_top::<ElitistArchive<P>>() {
            match reg.try_borrow::<ElitistArchive<P>>() {
                Ok(a) => {
                    for ind in a.elitists() {
                        f("elitist_archive", depth, ind);
                    }
                }
                Err(_) => skipped.push("elitist_archive"),
            }
        }
        if reg.contains_at_top::<pso::BestParticles<P, Global>>() {
            match reg.try_borrow::<pso::BestParticles<P, Global>>() {
                Ok(a) => {
                    for ind in a.iter() {
                        f("pso_personal_best", depth, ind);
                    }
                }
                Err(_) => skipped.push("pso_personal_best"),
            }
        }
        if reg.contains_at_top::<pso::BestParticle<P, Global>>() {
            match reg.try_borrow::<pso::BestParticle<P, Global>>() {
                Ok(a) => {
                    if let Some(ind) = a.as_ref() {
                        f("pso_global_best", depth, ind);
                    }
                }
                Err(_) => skipped.push("pso_global_best"),
            }
        }
        if reg.contains_at_top::<ChemicalReaction<P>>() {
            match reg.try_borrow::<ChemicalReaction<P>>() {
                Ok(a) => {
                    for m in a.iter() {
                        f("cro_molecule_best", depth, &m.best);
                    }
                }
                Err(_) => skipped.push("cro_molecule_best"),
            }
        }
    });
    skipped
}

/// Stack of populations as (solution hash, objective) pairs, top first.
pub fn snapshot_stack<P: SingleObjectiveProblem>(
    state: &State<P>,
    sol_hash: impl Fn(&P::Encoding) -> u64,
) -> Option<Vec<Vec<(u64, Option<f64>)>>> {
    let pops = state.try_borrow::<common::Populations<P>>().ok()?;
    let mut out = Vec::new();
    let mut d = 0;
    while let Some(pop) = pops.try_peek(d) {
        out.push(
            pop.iter()
                .map(|i| (sol_hash(i.solution()), i.get_objective().map(|o| o.value())))
                .collect(),
        );
        d += 1;
    }
    Some(out)
}

pub fn stack_height<P: Problem>(state: &State<P>) -> Option<usize> {
    state.try_borrow::<common::Populations<P>>().ok().map(|p| p.len())
}

pub fn top_len<P: Problem>(state: &State<P>) -> Option<usize> {
    state
        .try_borrow::<common::Populations<P>>()
        .ok()
        .and_then(|p| p.get_current().map(|c| c.len()))
}

/// Result of one observed run: `Err(panic message)` if the run panicked, otherwise the run's own result.
pub type RunResult<'a, P> = Result<Result<State<'a, P>, String>, String>;

/// Runs `cfg` on `problem` with a seeded generator, the chosen evaluator and `obs` installed as the
/// step observer. With `pool`, the run (and thus rayon's parallel evaluation) happens inside that pool.
pub fn run_observed<'a, P>(
    cfg: &mahf::Configuration<P>,
    problem: &'a P,
    seed: u64,
    parallel: bool,
    pool: Option<&rayon::ThreadPool>,
    obs: impl FnMut(StepEvent<'_, P>, &P, &State<P>) + Send + 'a,
) -> RunResult<'a, P>
where
    P: crate::problems::Instrumented,
{
    run_observed_prepared(cfg, problem, seed, parallel, pool, |_| {}, obs)
}

/// Like [`run_observed`], with `prepare` called on the fresh state (e.g. to push a prepared population).
pub fn run_observed_prepared<'a, P>(
    cfg: &mahf::Configuration<P>,
    problem: &'a P,
    seed: u64,
    parallel: bool,
    pool: Option<&rayon::ThreadPool>,
    prepare: impl FnOnce(&mut State<'a, P>) + Send,
    obs: impl FnMut(StepEvent<'_, P>, &P, &State<P>) + Send + 'a,
) -> RunResult<'a, P>
where
    P: crate::problems::Instrumented,
{
    let go = move || {
        crate::util::catch(move || {
            cfg.optimize_with(problem, |state: &mut State<'a, P>| {
                if parallel {
                    state.insert_evaluator(mahf::problems::evaluate::Parallel::<P>::new());
                } else {
                    state.insert_evaluator(mahf::problems::evaluate::Sequential::<P>::new());
                }
                state.insert(mahf::state::Random::new(seed));
                prepare(state);
                install(state, obs);
                Ok(())
            })
            .map_err(|e| format!("{e:#}"))
        })
    };
    match pool {
        Some(p) => p.install(go),
        None => go(),
    }
}

/// Canonical description of everything a finished run left behind: population stack (solutions as
/// exact text, objective bit patterns), best individual, counters, log, algorithm-specific memories
/// and the next output of the random generator (fingerprint of the stream position).
pub fn run_digest<P>(state: &State<P>) -> serde_json::Value
where
    P: crate::problems::Instrumented,
{
    use mahf::components::{diversity as dv, generative::PheromoneMatrix, misc::cro, replacement::sa::Temperature, swarm::fa::RandomizationParameter};
    use rand::RngCore;
    use serde_json::json;
    let ind = |i: &Individual<P>| json!({"s": P::sol_json(i.solution()), "o": i.get_objective().map(|o| format!("{:016x}", o.value().to_bits()))});
    let mut stack = Vec::new();
    if let Ok(pops) = state.try_borrow::<common::Populations<P>>() {
        let mut d = 0;
        while let Some(p) = pops.try_peek(d) {
            stack.push(p.iter().map(ind).collect::<Vec<_>>());
            d += 1;
        }
    }
    let best = state.best_individual().map(|b| ind(&b));
    let log = state.try_borrow::<mahf::logging::Log>().ok().map(|l| serde_json::to_value(&*l).unwrap_or(json!("unserialisable")));
    let f = |v: f64| format!("{:016x}", v.to_bits());
    let mut extra = serde_json::Map::new();
    macro_rules! div {
        ($t:ty, $n:expr) => {
            if let Ok(d) = state.try_borrow::<dv::Diversity<$t>>() {
                extra.insert($n.into(), json!([f(d.diversity), f(d.max_diversity)]));
            }
        };
    }
    div!(dv::DimensionWiseDiversity, "div_dw");
    div!(dv::PairwiseDistanceDiversity, "div_pw");
    div!(dv::TrueDiversity, "div_td");
    div!(dv::DistanceToAveragePointDiversity, "div_dtap");
    if let Ok(v) = state.try_borrow::<pso::ParticleVelocities<Global>>() {
        extra.insert("pso_v".into(), json!(v.iter().map(|r| r.iter().map(|x| f(*x)).collect::<Vec<_>>()).collect::<Vec<_>>()));
    }
    if let Ok(v) = state.try_borrow::<pso::BestParticles<P, Global>>() {
        extra.insert("pso_pbest".into(), json!(v.iter().map(ind).collect::<Vec<_>>()));
    }
    if let Ok(v) = state.try_borrow::<pso::BestParticle<P, Global>>() {
        extra.insert("pso_gbest".into(), json!(v.as_ref().map(ind)));
    }
    if let Ok(t) = state.try_get_value::<Temperature>() {
        extra.insert("temperature".into(), json!(f(t)));
    }
    if let Ok(t) = state.try_get_value::<RandomizationParameter>() {
        extra.insert("fa_alpha".into(), json!(f(t)));
    }
    if let Ok(t) = state.try_get_value::<cro::EnergyBuffer>() {
        extra.insert("cro_buffer".into(), json!(f(t)));
    }
    if let Ok(r) = state.try_borrow::<cro::ChemicalReaction<P>>() {
        extra.insert("cro_molecules".into(), json!(r.iter().map(|m| json!([f(m.kinetic_energy), m.num_hit, m.min_hit, ind(&m.best)])).collect::<Vec<_>>()));
    }
    if let Ok(a) = state.try_borrow::<ElitistArchive<P>>() {
        extra.insert("archive".into(), json!(a.elitists().iter().map(ind).collect::<Vec<_>>()));
    }
    if let Ok(pm) = state.try_borrow::<PheromoneMatrix>() {
        let n = pm[0].len();
        extra.insert("pheromones".into(), json!((0..n).map(|i| pm[i].iter().map(|x| f(*x)).collect::<Vec<_>>()).collect::<Vec<_>>()));
    }
    let rng_next = state.try_borrow_mut::<mahf::state::Random>().ok().map(|mut r| {
        let c = r.config().clone();
        json!({"backend": c.name, "seed": c.seed, "next": r.next_u64()})
    });
    json!({
        "stack": stack,
        "best": best,
        "evaluations": state.try_get_value::<common::Evaluations>().ok(),
        "iterations": state.try_get_value::<common::Iterations>().ok(),
        "log": log,
        "extra": extra,
        "rng": rng_next,
    })
}
