//! Verdict / evidence plumbing shared by all monitors.
//!
//! Verdicts are three-valued: exit 0 = held on everything observed, exit 1 = violated (one
//! `VIOLATION property=<id> replay=<path>` line per distinct signature that is not a listed known
//! finding), exit 2 = inconclusive (`INCONCLUSIVE property=<id> reason=...`).
use std::{
    collections::{BTreeMap, HashSet},
    path::PathBuf,
    sync::Mutex,
    time::Instant,
};

use serde_json::{json, Map, Value};

use crate::util::{fnv, verif_root};

#[derive(Clone, Copy, Debug, PartialEq, Eq)]
pub enum Tier {
    Quick,
    Thorough,
}

impl Tier {
    pub fn name(self) -> &'static str {
        match self {
            Tier::Quick => "quick",
            Tier::Thorough => "thorough",
        }
    }
    pub fn pick<T>(self, quick: T, thorough: T) -> T {
        match self {
            Tier::Quick => quick,
            Tier::Thorough => thorough,
        }
    }
}

/// Thread-local accumulator for hot loops; merged into the [`Reporter`] once per shard.
#[derive(Default)]
pub struct Local {
    pub cases: u64,
    pub nontrivial: HashSet<u64>,
    pub counters: BTreeMap<String, u64>,
}

impl Local {
    pub fn new() -> Self {
        Self::default()
    }
    pub fn case(&mut self) {
        self.cases += 1;
    }
    pub fn nontrivial(&mut self, h: u64) {
        self.nontrivial.insert(h);
    }
    pub fn count(&mut self, name: &str, n: u64) {
        *self.counters.entry(name.to_string()).or_insert(0) += n;
    }
}

struct Inner {
    evaluations: u64,
    nontrivial: HashSet<u64>,
    samples: Vec<Value>,
    violations: BTreeMap<String, Value>,
    counters: BTreeMap<String, u64>,
    extra: Map<String, Value>,
    rule: String,
    exhaustive: Option<bool>,
    assumptions: Vec<String>,
    inconclusive: Vec<String>,
    sets: BTreeMap<String, HashSet<u64>>,
}

pub struct Reporter {
    pub id: &'static str,
    pub tier: Tier,
    pub seed: u64,
    pub replay: Option<PathBuf>,
    pub args: Vec<String>,
    start: Instant,
    inner: Mutex<Inner>,
}

const MAX_SAMPLES: usize = 6;
const MAX_VIOLATIONS: usize = 200;

impl Reporter {
    /// Parses `--tier quick|thorough`, `--seed N`, `--replay FILE` (falling back to `VERIF_TIER` /
    /// `VERIF_SEED`); remaining arguments are kept in `args`.
    pub fn from_args(id: &'static str) -> Self {
        let mut tier = match std::env::var("VERIF_TIER").as_deref() {
            Ok("thorough") => Tier::Thorough,
            _ => Tier::Quick,
        };
        let mut seed: u64 = std::env::var("VERIF_SEED")
            .ok()
            .and_then(|s| s.trim().parse::<i64>().ok())
            .map(|s| s as u64)
            .unwrap_or(1);
        let mut replay = None;
        let mut rest = Vec::new();
        let mut it = std::env::args().skip(1);
        while let Some(a) = it.next() {
            match a.as_str() {
                "--tier" => {
                    tier = match it.next().as_deref() {
                        Some("thorough") => Tier::Thorough,
                        _ => Tier::Quick,
                    }
                }
                "--seed" => {
                    if let Some(s) = it.next().and_then(|s| s.parse::<i64>().ok()) {
                        seed = s as u64;
                    }
                }
                "--replay" => replay = it.next().map(PathBuf::from),
                _ => rest.push(a),
            }
        }
        Self {
            id,
            tier,
            seed,
            replay,
            args: rest,
            start: Instant::now(),
            inner: Mutex::new(Inner {
                evaluations: 0,
                nontrivial: HashSet::new(),
                samples: Vec::new(),
                violations: BTreeMap::new(),
                counters: BTreeMap::new(),
                extra: Map::new(),
                rule: String::new(),
                exhaustive: None,
                assumptions: Vec::new(),
                inconclusive: Vec::new(),
                sets: BTreeMap::new(),
            }),
        }
    }

    pub fn quick(&self) -> bool {
        self.tier == Tier::Quick
    }

    pub fn case(&self) {
        self.inner.lock().unwrap().evaluations += 1;
    }
    pub fn cases(&self, n: u64) {
        self.inner.lock().unwrap().evaluations += n;
    }
    pub fn nontrivial(&self, h: u64) {
        self.inner.lock().unwrap().nontrivial.insert(h);
    }
    pub fn merge(&self, l: Local) {
        let mut i = self.inner.lock().unwrap();
        i.evaluations += l.cases;
        i.nontrivial.extend(l.nontrivial);
        for (k, v) in l.counters {
            *i.counters.entry(k).or_insert(0) += v;
        }
    }
    /// Keeps the first few samples of actual cases.
    pub fn sample(&self, v: Value) {
        let mut i = self.inner.lock().unwrap();
        if i.samples.len() < MAX_SAMPLES {
            i.samples.push(v);
        }
    }
    pub fn want_sample(&self) -> bool {
        self.inner.lock().unwrap().samples.len() < MAX_SAMPLES
    }
    pub fn count(&self, name: &str, n: u64) {
        *self.inner.lock().unwrap().counters.entry(name.to_string()).or_insert(0) += n;
    }
    pub fn counter(&self, name: &str) -> u64 {
        self.inner.lock().unwrap().counters.get(name).copied().unwrap_or(0)
    }
    /// Adds `h` to the named distinct-set; its size is reported as `distinct_<name>`.
    pub fn distinct(&self, name: &str, h: u64) {
        self.inner.lock().unwrap().sets.entry(name.to_string()).or_default().insert(h);
    }
    pub fn distinct_len(&self, name: &str) -> usize {
        self.inner.lock().unwrap().sets.get(name).map(|s| s.len()).unwrap_or(0)
    }
    pub fn set(&self, name: &str, v: Value) {
        self.inner.lock().unwrap().extra.insert(name.to_string(), v);
    }
    pub fn rule(&self, text: &str) {
        self.inner.lock().unwrap().rule = text.to_string();
    }
    pub fn exhaustive(&self, b: bool) {
        self.inner.lock().unwrap().exhaustive = Some(b);
    }
    pub fn assume(&self, text: &str) {
        self.inner.lock().unwrap().assumptions.push(text.to_string());
    }
    pub fn inconclusive(&self, reason: &str) {
        self.inner.lock().unwrap().inconclusive.push(reason.to_string());
    }
    pub fn violation_count(&self) -> usize {
        self.inner.lock().unwrap().violations.len()
    }

    /// Records a violation. `signature` identifies the class of failure exactly (operator + input
    /// class + outcome class, template + failing step, ...); only the first witness per signature
    /// is kept. `detail` is the concrete case (what was executed, expected, observed).
    pub fn violation(&self, signature: &str, detail: Value) {
        let mut i = self.inner.lock().unwrap();
        if i.violations.len() >= MAX_VIOLATIONS || i.violations.contains_key(signature) {
            return;
        }
        i.violations.insert(signature.to_string(), detail);
    }

    /// Folds the results of auxiliary sanitizer steps (Miri / TSan, run by the `check` driver and
    /// handed over with `--aux FILE`) into evidence and verdict. A sanitizer report or a monitor
    /// violation inside the sanitized run is a violation; a step that could not run is listed in
    /// the evidence (`sanitizer_steps[].status == "unavailable"`) and decides nothing.
    pub fn fold_aux(&self) {
        let mut it = self.args.iter();
        let mut path = None;
        while let Some(a) = it.next() {
            if a == "--aux" {
                path = it.next().cloned();
            }
        }
        let Some(path) = path else { return };
        let Ok(text) = std::fs::read_to_string(&path) else { return };
        let Ok(Value::Array(steps)) = serde_json::from_str::<Value>(&text) else { return };
        for st in &steps {
            let tool = st.get("tool").and_then(|v| v.as_str()).unwrap_or("?");
            let bin = st.get("bin").and_then(|v| v.as_str()).unwrap_or("?");
            match st.get("status").and_then(|v| v.as_str()) {
                Some("report") => self.violation(&format!("{tool}:{bin}:sanitizer-report"), st.clone()),
                Some("monitor") => self.violation(&format!("{tool}:{bin}:monitor-violation-under-sanitizer"), st.clone()),
                _ => {}
            }
            if let Some(c) = st.get("counters").and_then(|c| c.as_object()) {
                for (k, v) in c {
                    if let Some(n) = v.as_u64() {
                        self.count(&format!("{tool}_{k}"), n);
                    }
                }
            }
        }
        self.set("sanitizer_steps", Value::Array(steps));
    }

    /// Writes the evidence file, prints the verdict lines and exits.
    pub fn finish(self) -> ! {
        let root = verif_root();
        let known = load_known(&root, self.id);
        let i = self.inner.into_inner().unwrap();
        let wall = self.start.elapsed().as_secs_f64();

        let mut new_violations = Vec::new();
        let mut known_hits = Vec::new();
        for (sig, detail) in &i.violations {
            if let Some(what) = known.get(sig) {
                known_hits.push((sig.clone(), what.clone()));
            } else {
                new_violations.push((sig.clone(), detail.clone()));
            }
        }

        let mut coverage = Map::new();
        coverage.insert("evaluations".into(), json!(i.evaluations));
        coverage.insert("distinct_nontrivial".into(), json!(i.nontrivial.len()));
        coverage.insert("rule".into(), json!(i.rule));
        coverage.insert("samples".into(), Value::Array(i.samples.clone()));
        if let Some(e) = i.exhaustive {
            coverage.insert("exhaustive".into(), json!(e));
        }
        for (k, v) in &i.counters {
            coverage.insert(k.clone(), json!(v));
        }
        for (k, s) in &i.sets {
            coverage.insert(format!("distinct_{k}"), json!(s.len()));
        }
        for (k, v) in &i.extra {
            coverage.insert(k.clone(), v.clone());
        }
        coverage.insert(
            "known_findings_observed".into(),
            json!(known_hits.iter().map(|(s, _)| s.clone()).collect::<Vec<_>>()),
        );
        coverage.insert(
            "violation_signatures".into(),
            json!(new_violations.iter().map(|(s, _)| s.clone()).collect::<Vec<_>>()),
        );
        if !i.inconclusive.is_empty() {
            coverage.insert("inconclusive".into(), json!(i.inconclusive));
        }
        let evidence = json!({
            "property_id": self.id,
            "tier": self.tier.name(),
            "seed": self.seed as i64,
            "level": "exploration",
            "coverage": Value::Object(coverage),
            "assumptions": i.assumptions,
            "wall_s": (wall * 1000.0).round() / 1000.0,
            "violations": new_violations.len(),
        });
        if self.replay.is_none() {
            let dir = root.join("evidence");
            let _ = std::fs::create_dir_all(&dir);
            let path = dir.join(format!("{}.json", self.id));
            if let Err(e) = std::fs::write(&path, serde_json::to_string_pretty(&evidence).unwrap() + "\n") {
                println!("INCONCLUSIVE property={} reason=cannot-write-evidence:{e}", self.id);
                std::process::exit(2);
            }
        }

        for (_sig, what) in &known_hits {
            println!("KNOWN-FINDING: property={} {}", self.id, what);
        }
        if !new_violations.is_empty() {
            let dir = root.join("replays").join(self.id);
            let _ = std::fs::create_dir_all(&dir);
            for (sig, detail) in &new_violations {
                let path = dir.join(format!("{:016x}.json", fnv(sig)));
                let body = json!({
                    "property": self.id, "tier": self.tier.name(), "seed": self.seed as i64,
                    "signature": sig, "case": detail,
                });
                let _ = std::fs::write(&path, serde_json::to_string_pretty(&body).unwrap() + "\n");
                println!("VIOLATION property={} replay={}", self.id, path.display());
                println!("  signature: {sig}");
            }
            println!(
                "{}: VIOLATED ({} new signature(s), {} known) after {} cases in {:.1}s",
                self.id, new_violations.len(), known_hits.len(), i.evaluations, wall
            );
            std::process::exit(1);
        }
        let mut reasons = i.inconclusive.clone();
        if i.evaluations == 0 {
            reasons.push("no-cases-executed".into());
        }
        if i.nontrivial.len() < 2 {
            reasons.push("fewer-than-two-distinct-nontrivial-cases".into());
        }
        if !reasons.is_empty() {
            for r in &reasons {
                println!("INCONCLUSIVE property={} reason={}", self.id, r.replace(' ', "-"));
            }
            std::process::exit(2);
        }
        println!(
            "{}: held on {} cases ({} distinct non-trivial), {} known finding(s), tier={} seed={} in {:.1}s",
            self.id, i.evaluations, i.nontrivial.len(), known_hits.len(), self.tier.name(), self.seed as i64, wall
        );
        std::process::exit(0);
    }
}

/// `known_findings.json`: `{"findings": [{"property","signature","status":"known"|"fixed","what",...}]}`.
/// Only `status == "known"` entries suppress; `fixed` entries suppress nothing.
fn load_known(root: &std::path::Path, id: &str) -> BTreeMap<String, String> {
    let mut out = BTreeMap::new();
    let Ok(text) = std::fs::read_to_string(root.join("known_findings.json")) else {
        return out;
    };
    let Ok(v) = serde_json::from_str::<Value>(&text) else {
        return out;
    };
    if let Some(arr) = v.get("findings").and_then(|f| f.as_array()) {
        for f in arr {
            if f.get("property").and_then(|p| p.as_str()) == Some(id)
                && f.get("status").and_then(|p| p.as_str()) == Some("known")
            {
                if let (Some(sig), Some(what)) = (
                    f.get("signature").and_then(|p| p.as_str()),
                    f.get("what").and_then(|p| p.as_str()),
                ) {
                    out.insert(sig.to_string(), what.to_string());
                }
            }
        }
    }
    out
}
