//! C02 — dynamic borrows (sessions vs a readers-xor-writer model), multi-borrow tuples, `holding`.
//! Shared by the native monitor (`c02`) and the Miri binary (`c02_miri`).
use std::{
    cell::{Ref, RefMut},
    collections::BTreeMap,
    ops::{Deref, DerefMut},
};

use better_any::{Tid, TidAble};
use mahf::{state::registry::StateError, CustomState, State, StateRegistry};

use crate::{
    c01model::{SA, SC, SL},
    problems::TagP,
    util::catch,
};

pub mod gen_quick;
#[cfg(feature = "thorough_tuples")]
pub mod gen_thorough;

pub type Viol = (String, String);

pub fn class(e: &StateError) -> &'static str {
    match e {
        StateError::NotFound(_) => "NotFound",
        StateError::BorrowConflictImm(..) => "BorrowConflictImm",
        StateError::BorrowConflictMut(..) => "BorrowConflictMut",
        StateError::MultipleBorrowConflict(_) => "MultipleBorrowConflict",
        StateError::RequiredMissing(..) => "RequiredMissing",
    }
}

macro_rules! mtypes {
    ($($n:ident),*) => {$(
        #[derive(Tid, Default, Debug)]
        pub struct $n(pub u32);
        impl CustomState<'_> for $n {}
        impl Deref for $n { type Target = u32; fn deref(&self) -> &u32 { &self.0 } }
        impl DerefMut for $n { fn deref_mut(&mut self) -> &mut u32 { &mut self.0 } }
    )*};
}
mtypes!(M0, M1, M2, M3, M4, M5, M6, M7, H0, H1, H2);

// ------------------------------------------------------------------------------------------------
// Multi-borrow tuples

#[derive(Default)]
pub struct Cx {
    pub violations: Vec<Viol>,
    pub calls: u64,
    pub tuples: u64,
    pub tuples_run: u64,
    pub granted: u64,
    pub refused_repeat: u64,
    pub refused_missing: u64,
    pub distinct_cases: std::collections::HashSet<u64>,
    pub sample: Option<String>,
    /// Lean mode (for Miri, ~10^4 x slower): three registry patterns per tuple, no panicking twin.
    pub lean: bool,
    /// (k, n): only every n-th tuple type, offset k (process sharding under Miri); n = 0 means all.
    pub shard: (u64, u64),
}

fn insert_m(reg: &mut StateRegistry<'static>, i: usize, v: u32) {
    match i {
        0 => drop(reg.insert(M0(v))),
        1 => drop(reg.insert(M1(v))),
        2 => drop(reg.insert(M2(v))),
        3 => drop(reg.insert(M3(v))),
        4 => drop(reg.insert(M4(v))),
        5 => drop(reg.insert(M5(v))),
        6 => drop(reg.insert(M6(v))),
        _ => drop(reg.insert(M7(v))),
    }
}

fn value_m(reg: &StateRegistry<'static>, i: usize) -> Option<u32> {
    match i {
        0 => reg.try_get_value::<M0>().ok(),
        1 => reg.try_get_value::<M1>().ok(),
        2 => reg.try_get_value::<M2>().ok(),
        3 => reg.try_get_value::<M3>().ok(),
        4 => reg.try_get_value::<M4>().ok(),
        5 => reg.try_get_value::<M5>().ok(),
        6 => reg.try_get_value::<M6>().ok(),
        _ => reg.try_get_value::<M7>().ok(),
    }
}

/// Where each of the 8 types lives: 0 = missing, 1 = innermost scope, 2 = parent scope only,
/// 3 = both (shadowed).
fn build(pattern: &[u8; 8]) -> StateRegistry<'static> {
    let mut root = StateRegistry::new();
    for (i, p) in pattern.iter().enumerate() {
        if *p == 2 || *p == 3 {
            insert_m(&mut root, i, 10 + i as u32);
        }
    }
    let mut child = root.into_child();
    for (i, p) in pattern.iter().enumerate() {
        if *p == 1 || *p == 3 {
            insert_m(&mut child, i, 20 + i as u32);
        }
    }
    child
}

impl Cx {
    pub fn tuple(
        &mut self,
        idx: &[usize],
        try_f: impl Fn(&mut StateRegistry<'static>) -> Result<Vec<usize>, &'static str>,
        panicking: impl Fn(&mut StateRegistry<'static>),
    ) {
        self.tuples += 1;
        if self.shard.1 > 0 && (self.tuples - 1) % self.shard.1 != self.shard.0 {
            return;
        }
        self.tuples_run += 1;
        if self.sample.is_none() && idx.len() == 3 {
            self.sample = Some(format!("try_get_multiple_mut::<(M{}, M{}, M{})>()", idx[0], idx[1], idx[2]));
        }
        let distinct = {
            let mut s = idx.to_vec();
            s.sort();
            s.dedup();
            s.len() == idx.len()
        };
        // presence patterns
        let mut patterns: Vec<[u8; 8]> = vec![[1; 8], [2; 8], [3; 8]];
        let mut mixed = [1u8; 8];
        for (i, m) in mixed.iter_mut().enumerate() {
            *m = if i % 2 == 0 { 1 } else { 2 };
        }
        patterns.push(mixed);
        let mut used: Vec<usize> = idx.to_vec();
        used.sort();
        used.dedup();
        for &u in &used {
            let mut p = mixed;
            p[u] = 0;
            patterns.push(p);
        }
        if used.len() >= 2 {
            let mut p = [1u8; 8];
            p[used[0]] = 0;
            p[used[used.len() - 1]] = 0;
            patterns.push(p);
        }
        if self.lean {
            let mut one_missing = mixed;
            one_missing[used[self.tuples as usize % used.len()]] = 0;
            patterns = vec![mixed, [3; 8], one_missing];
        }
        for pat in patterns {
            self.calls += 1;
            let missing = idx.iter().any(|&i| pat[i] == 0);
            let mut reg = build(&pat);
            let got = try_f(&mut reg);
            let sig_base = format!("multi:arity{}:{}", idx.len(), if !distinct { "repeat" } else if missing { "missing" } else { "ok" });
            self.distinct_cases.insert(crate::util::hash_of(&(idx, pat)));
            let expect = if !distinct {
                Err("MultipleBorrowConflict")
            } else if missing {
                Err("NotFound")
            } else {
                Ok(())
            };
            match (&got, expect) {
                (Ok(addrs), Ok(())) => {
                    self.granted += 1;
                    let mut a = addrs.clone();
                    a.sort();
                    a.dedup();
                    if a.len() != addrs.len() {
                        self.violations.push((format!("{sig_base}:aliased-references"), format!("tuple {idx:?} pattern {pat:?}: returned references share an address {addrs:?}")));
                    }
                    // what was written through each reference is what a later reader sees
                    for (p, &i) in idx.iter().enumerate() {
                        let seen = value_m(&reg, i);
                        if seen != Some(1000 + p as u32) {
                            self.violations.push((format!("{sig_base}:write-lost"), format!("tuple {idx:?} pattern {pat:?}: wrote {} through position {p} (M{i}) but a later reader sees {seen:?}", 1000 + p)));
                        }
                    }
                    // untouched types keep their value
                    for i in 0..8 {
                        if !idx.contains(&i) && pat[i] != 0 {
                            let want = if pat[i] == 2 { 10 + i as u32 } else { 20 + i as u32 };
                            if value_m(&reg, i) != Some(want) {
                                self.violations.push((format!("{sig_base}:other-type-affected"), format!("tuple {idx:?} pattern {pat:?}: M{i} changed to {:?}", value_m(&reg, i))));
                            }
                        }
                    }
                }
                (Ok(addrs), Err(want)) => {
                    self.violations.push((format!("{sig_base}:granted-when-forbidden"), format!("tuple {idx:?} pattern {pat:?}: granted ({} refs, addresses {addrs:?}) but {want} expected", addrs.len())));
                }
                (Err(e), Ok(())) => {
                    self.violations.push((format!("{sig_base}:refused-when-allowed"), format!("tuple {idx:?} pattern {pat:?}: refused with {e}")));
                }
                (Err(e), Err(want)) => {
                    if !distinct {
                        self.refused_repeat += 1;
                    } else {
                        self.refused_missing += 1;
                    }
                    if *e != want {
                        self.violations.push((format!("{sig_base}:wrong-error-class"), format!("tuple {idx:?} pattern {pat:?}: error {e}, expected {want}")));
                    }
                }
            }
            if self.lean {
                continue;
            }
            // panicking twin: panics iff the try_ variant errs
            let mut reg2 = build(&pat);
            let panicked = catch(|| panicking(&mut reg2)).is_err();
            if panicked != expect.is_err() {
                self.violations.push((format!("{sig_base}:panicking-twin-disagrees"), format!("tuple {idx:?} pattern {pat:?}: get_multiple_mut panicked = {panicked}, expected {}", expect.is_err())));
            }
        }
    }
}

// ------------------------------------------------------------------------------------------------
// Borrow sessions

/// A request names (scope, type): scope 0 = innermost, 1 = its parent; type 0 = SL<'a>, 1 = SA, 2 = SC (never present).
#[derive(Clone, Copy, Debug, PartialEq, Eq, Hash)]
pub enum SOp {
    AcqShared(u8, u8),
    AcqExcl(u8, u8),
    /// try_get_value, then set_value with a fresh value
    Probe(u8, u8),
    /// panicking borrow / borrow_mut twins
    Panicking(u8, u8),
    Release(u8),
    Write(u8),
}

enum Guard<'r, 'a> {
    S0(Ref<'r, SL<'a>>),
    X0(RefMut<'r, SL<'a>>),
    S1(Ref<'r, SA>),
    X1(RefMut<'r, SA>),
}

impl Guard<'_, '_> {
    fn read(&self) -> u32 {
        match self {
            Guard::S0(g) => ***g,
            Guard::X0(g) => ***g,
            Guard::S1(g) => ***g,
            Guard::X1(g) => ***g,
        }
    }
    fn write(&mut self, v: u32) -> bool {
        match self {
            Guard::X0(g) => {
                ***g = v;
                true
            }
            Guard::X1(g) => {
                ***g = v;
                true
            }
            _ => false,
        }
    }
}

#[derive(Clone, Default, Debug)]
struct Cell {
    readers: u32,
    writer: bool,
    value: u32,
}

/// layout bit i set = the innermost scope holds type i as well (shadowing the parent's instance).
pub struct SessionWorld<'a> {
    pub state: State<'a, TagP>,
    pub layout: u8,
}

impl<'a> SessionWorld<'a> {
    pub fn new(mem: &'a u32, layout: u8) -> Self {
        let mut root = StateRegistry::new();
        root.insert(SL { r: mem, v: 1 });
        root.insert(SA(2));
        let mut child = root.into_child();
        if layout & 1 != 0 {
            child.insert(SL { r: mem, v: 3 });
        }
        if layout & 2 != 0 {
            child.insert(SA(4));
        }
        Self { state: child.into(), layout }
    }
}

#[derive(Default, Clone, Debug)]
pub struct SessionStats {
    pub granted: u64,
    pub refused: u64,
    pub max_live: usize,
    pub conflicts_seen: u64,
}

/// Runs one session on a fresh world. Returns the first violation.
pub fn run_session(layout: u8, ops: &[SOp], stats: &mut SessionStats) -> Result<(), (String, String, usize)> {
    let mem = 9u32;
    let world = SessionWorld::new(&mem, layout);
    let st = &world.state;
    // cells: index = scope*2 + type, scope 0 = innermost; resolve aliasing through the layout
    let resolve = |scope: u8, ty: u8| -> usize {
        if scope == 0 && layout & (1 << ty) != 0 {
            ty as usize
        } else {
            2 + ty as usize
        }
    };
    let mut cells = vec![Cell::default(); 4];
    cells[0].value = 3;
    cells[1].value = 4;
    cells[2].value = 1;
    cells[3].value = 2;
    let mut guards: Vec<(Guard<'_, '_>, usize)> = Vec::new();
    let mut next = 500u32;
    for (i, &op) in ops.iter().enumerate() {
        let fail = |sig: &str, msg: String| Err((sig.to_string(), msg, i));
        match op {
            SOp::AcqShared(scope, ty) | SOp::AcqExcl(scope, ty) | SOp::Probe(scope, ty) | SOp::Panicking(scope, ty) => {
                let reg: &StateRegistry<'_> = if scope == 0 { st } else { st.parent().unwrap() };
                if ty == 2 {
                    // never present: every accessor must say NotFound / None / panic
                    let a = reg.try_borrow::<SC>().map(|_| ()).map_err(|e| class(&e));
                    let b = reg.try_borrow_mut::<SC>().map(|_| ()).map_err(|e| class(&e));
                    let c = reg.try_get_value::<SC>().map_err(|e| class(&e));
                    let d = reg.set_value::<SC>(1);
                    if a != Err("NotFound") || b != Err("NotFound") || c != Err("NotFound") || d.is_some() {
                        return fail("session:absent-type-invented", format!("absent type: try_borrow {a:?}, try_borrow_mut {b:?}, try_get_value {c:?}, set_value {d:?}"));
                    }
                    continue;
                }
                let c = resolve(scope, ty);
                match op {
                    SOp::AcqShared(..) => {
                        let allowed = !cells[c].writer;
                        let got: Result<Guard<'_, '_>, &'static str> = if ty == 0 {
                            reg.try_borrow::<SL<'_>>().map(Guard::S0).map_err(|e| class(&e))
                        } else {
                            reg.try_borrow::<SA>().map(Guard::S1).map_err(|e| class(&e))
                        };
                        match (got, allowed) {
                            (Ok(g), true) => {
                                cells[c].readers += 1;
                                guards.push((g, c));
                                stats.granted += 1;
                            }
                            (Ok(_), false) => return fail("session:shared-granted-while-exclusively-held", format!("op {op:?}: shared guard granted while an exclusive guard is alive (cell {c})")),
                            (Err(e), true) => return fail("session:shared-refused-when-allowed", format!("op {op:?}: refused with {e} though no exclusive guard is alive (cell {c})")),
                            (Err(e), false) => {
                                stats.refused += 1;
                                stats.conflicts_seen += 1;
                                if e != "BorrowConflictImm" {
                                    return fail("session:wrong-error-class", format!("op {op:?}: error {e}, expected BorrowConflictImm"));
                                }
                            }
                        }
                    }
                    SOp::AcqExcl(..) => {
                        let allowed = !cells[c].writer && cells[c].readers == 0;
                        let got: Result<Guard<'_, '_>, &'static str> = if ty == 0 {
                            reg.try_borrow_mut::<SL<'_>>().map(Guard::X0).map_err(|e| class(&e))
                        } else {
                            reg.try_borrow_mut::<SA>().map(Guard::X1).map_err(|e| class(&e))
                        };
                        match (got, allowed) {
                            (Ok(g), true) => {
                                cells[c].writer = true;
                                guards.push((g, c));
                                stats.granted += 1;
                            }
                            (Ok(_), false) => return fail("session:exclusive-granted-while-held", format!("op {op:?}: exclusive guard granted while {} reader(s) / writer={} alive (cell {c})", cells[c].readers, cells[c].writer)),
                            (Err(e), true) => return fail("session:exclusive-refused-when-allowed", format!("op {op:?}: refused with {e} though the cell is free (cell {c})")),
                            (Err(e), false) => {
                                stats.refused += 1;
                                stats.conflicts_seen += 1;
                                if e != "BorrowConflictMut" {
                                    return fail("session:wrong-error-class", format!("op {op:?}: error {e}, expected BorrowConflictMut"));
                                }
                            }
                        }
                    }
                    SOp::Probe(..) => {
                        let want_get = if cells[c].writer { Err("BorrowConflictImm") } else { Ok(cells[c].value) };
                        let got = if ty == 0 { reg.try_get_value::<SL<'_>>() } else { reg.try_get_value::<SA>() }.map_err(|e| class(&e));
                        if got != want_get {
                            return fail("session:try_get_value-wrong", format!("op {op:?}: try_get_value = {got:?}, model {want_get:?}"));
                        }
                        let bv = if ty == 0 { reg.try_borrow_value::<SL<'_>>().map(|r| *r) } else { reg.try_borrow_value::<SA>().map(|r| *r) }.map_err(|e| class(&e));
                        if bv != want_get {
                            return fail("session:try_borrow_value-wrong", format!("op {op:?}: try_borrow_value = {bv:?}, model {want_get:?}"));
                        }
                        next += 1;
                        let free = !cells[c].writer && cells[c].readers == 0;
                        let want_set = if free { Some(cells[c].value) } else { None };
                        let got = if ty == 0 { reg.set_value::<SL<'_>>(next) } else { reg.set_value::<SA>(next) };
                        if got != want_set {
                            return fail(if got.is_some() { "session:set_value-granted-while-held" } else { "session:set_value-refused-when-free" }, format!("op {op:?}: set_value = {got:?}, model {want_set:?}"));
                        }
                        if free {
                            cells[c].value = next;
                        }
                        let bvm = if ty == 0 { reg.try_borrow_value_mut::<SL<'_>>().map(|r| *r) } else { reg.try_borrow_value_mut::<SA>().map(|r| *r) }.map_err(|e| class(&e));
                        let want = if free { Ok(cells[c].value) } else { Err("BorrowConflictMut") };
                        if bvm != want {
                            return fail("session:try_borrow_value_mut-wrong", format!("op {op:?}: try_borrow_value_mut = {bvm:?}, model {want:?}"));
                        }
                    }
                    SOp::Panicking(..) => {
                        let shared_ok = !cells[c].writer;
                        let excl_ok = shared_ok && cells[c].readers == 0;
                        let p1 = catch(|| if ty == 0 { **reg.borrow::<SL<'_>>() } else { **reg.borrow::<SA>() });
                        let p2 = catch(|| if ty == 0 { **reg.borrow_mut::<SL<'_>>() } else { **reg.borrow_mut::<SA>() });
                        let p3 = catch(|| if ty == 0 { reg.get_value::<SL<'_>>() } else { reg.get_value::<SA>() });
                        let p4 = catch(|| if ty == 0 { *reg.borrow_value_mut::<SL<'_>>() } else { *reg.borrow_value_mut::<SA>() });
                        let v = cells[c].value;
                        let ok = |p: &Result<u32, String>, allowed: bool| if allowed { p.as_ref().ok() == Some(&v) } else { p.is_err() };
                        if !ok(&p1, shared_ok) || !ok(&p2, excl_ok) || !ok(&p3, shared_ok) || !ok(&p4, excl_ok) {
                            return fail("session:panicking-accessor-disagrees-with-try-twin", format!("op {op:?}: borrow {p1:?}, borrow_mut {p2:?}, get_value {p3:?}, borrow_value_mut {p4:?}; model shared_ok={shared_ok} excl_ok={excl_ok} value={v}"));
                        }
                    }
                    _ => unreachable!(),
                }
            }
            SOp::Release(k) => {
                if (k as usize) < guards.len() {
                    let (g, c) = guards.remove(k as usize);
                    match g {
                        Guard::S0(_) | Guard::S1(_) => cells[c].readers -= 1,
                        _ => cells[c].writer = false,
                    }
                }
            }
            SOp::Write(k) => {
                if let Some((g, c)) = guards.get_mut(k as usize) {
                    next += 1;
                    if g.write(next) {
                        cells[*c].value = next;
                    }
                }
            }
        }
        stats.max_live = stats.max_live.max(guards.len());
        // every live guard sees the model value of its cell
        for (g, c) in &guards {
            if g.read() != cells[*c].value {
                return fail("session:guard-sees-wrong-value", format!("after {op:?}: a live guard on cell {c} reads {} but the model value is {}", g.read(), cells[*c].value));
            }
        }
    }
    // release everything: every cell is available again and shows the last value written
    guards.clear();
    for scope in 0..2u8 {
        let reg: &StateRegistry<'_> = if scope == 0 { st } else { st.parent().unwrap() };
        for ty in 0..2u8 {
            let c = resolve(scope, ty);
            let x = if ty == 0 { reg.try_borrow_mut::<SL<'_>>().map(|g| **g) } else { reg.try_borrow_mut::<SA>().map(|g| **g) }.map_err(|e| class(&e));
            if x != Ok(cells[c].value) {
                return Err(("session:not-available-after-release".into(), format!("scope {scope} type {ty}: try_borrow_mut after releasing all guards = {x:?}, model value {}", cells[c].value), ops.len()));
            }
        }
    }
    Ok(())
}

pub fn session_alphabet() -> Vec<SOp> {
    let mut v = Vec::new();
    for scope in 0..2 {
        for ty in 0..2 {
            v.push(SOp::AcqShared(scope, ty));
            v.push(SOp::AcqExcl(scope, ty));
            v.push(SOp::Probe(scope, ty));
        }
    }
    for k in 0..3 {
        v.push(SOp::Release(k));
        v.push(SOp::Write(k));
    }
    v
}

pub fn session_alphabet_full() -> Vec<SOp> {
    let mut v = session_alphabet();
    for scope in 0..2 {
        for ty in 0..3 {
            v.push(SOp::Panicking(scope, ty.min(1)));
            if ty == 2 {
                v.push(SOp::AcqShared(scope, 2));
            }
        }
    }
    for k in 3..8 {
        v.push(SOp::Release(k));
        v.push(SOp::Write(k));
    }
    v
}

// ------------------------------------------------------------------------------------------------
// holding

pub type HModel = Vec<BTreeMap<u8, u32>>; // root .. innermost

fn h_insert(reg: &mut StateRegistry<'static>, t: u8, v: u32) {
    match t {
        0 => drop(reg.insert(H0(v))),
        1 => drop(reg.insert(H1(v))),
        _ => drop(reg.insert(H2(v))),
    }
}

fn h_top(reg: &StateRegistry<'static>, t: u8) -> Option<u32> {
    let (at_top, v) = match t {
        0 => (reg.contains_at_top::<H0>(), reg.try_get_value::<H0>().ok()),
        1 => (reg.contains_at_top::<H1>(), reg.try_get_value::<H1>().ok()),
        _ => (reg.contains_at_top::<H2>(), reg.try_get_value::<H2>().ok()),
    };
    if at_top {
        v
    } else {
        None
    }
}

fn h_sweep(st: &State<'static, TagP>, model: &HModel) -> Option<String> {
    let mut reg: Option<&StateRegistry<'static>> = Some(st);
    let mut k = model.len();
    while let Some(r) = reg {
        if k == 0 {
            return Some("registry deeper than the model".into());
        }
        k -= 1;
        for t in 0..3u8 {
            let got = h_top(r, t);
            let want = model[k].get(&t).copied();
            if got != want {
                return Some(format!("scope {k} (0 = root): H{t} = {got:?}, model {want:?}"));
            }
        }
        reg = r.parent();
    }
    if k != 0 {
        return Some("registry shallower than the model".into());
    }
    None
}

pub struct HoldCase {
    /// placement[t] = bitmask of scopes (bit 0 = root) holding type t
    pub placement: [u8; 3],
    pub depth: usize,
    /// types held at nesting level 1, 2, 3
    pub nest: Vec<u8>,
    /// level (1-based) whose closure fails after doing its work; 0 = none
    pub fail_level: usize,
}

fn nest_level(
    st: &mut State<'static, TagP>,
    model: &mut HModel,
    case: &HoldCase,
    level: usize,
    trace: &mut Vec<String>,
) -> mahf::ExecResult<()> {
    if level > case.nest.len() {
        return Ok(());
    }
    let t = case.nest[level - 1];
    // model: innermost scope holding t
    let at = (0..model.len()).rev().find(|&k| model[k].contains_key(&t));
    let held = at.map(|k| model[k].remove(&t).unwrap());
    let mut ran = false;
    let mut inner_result: Option<bool> = None;
    macro_rules! go {
        ($ty:ty) => {
            st.holding::<$ty>(|x: &mut $ty, st| {
                ran = true;
                if Some(x.0) != held {
                    trace.push(format!("level {level}: holding::<H{t}> handed out {} but the model says {held:?}", x.0));
                }
                if let Some(m) = h_sweep(st, model) {
                    trace.push(format!("level {level} inside holding::<H{t}>: {m}"));
                }
                // write through the held reference and to another visible state
                x.0 += 100;
                let other = (t + 1) % 3;
                let oat = (0..model.len()).rev().find(|&k| model[k].contains_key(&other));
                let wrote = match other {
                    0 => st.set_value::<H0>(7000 + level as u32),
                    1 => st.set_value::<H1>(7000 + level as u32),
                    _ => st.set_value::<H2>(7000 + level as u32),
                };
                match (oat, wrote) {
                    (Some(k), Some(_)) => {
                        model[k].insert(other, 7000 + level as u32);
                    }
                    (None, None) => {}
                    (o, w) => trace.push(format!("level {level}: set_value on H{other} inside holding = {w:?} but model presence = {}", o.is_some())),
                }
                let r = nest_level(st, model, case, level + 1, trace);
                inner_result = Some(r.is_ok());
                r?;
                if case.fail_level == level {
                    return Err(eyre::eyre!("injected at level {level}"));
                }
                Ok(())
            })
        };
    }
    let res = match t {
        0 => go!(H0),
        1 => go!(H1),
        _ => go!(H2),
    };
    let _ = inner_result;
    // model put-back: same scope, value + 100
    match (at, held) {
        (Some(k), Some(v)) => {
            model[k].insert(t, v + 100);
            if !ran {
                trace.push(format!("level {level}: holding::<H{t}> did not run the closure although the type is present"));
            }
        }
        _ => {
            if ran {
                trace.push(format!("level {level}: holding::<H{t}> ran the closure although the type is absent"));
            }
            if res.is_ok() {
                trace.push(format!("level {level}: holding::<H{t}> on an absent type returned Ok"));
            }
            return res;
        }
    }
    if let Some(m) = h_sweep(st, model) {
        trace.push(format!("after holding::<H{t}> at level {level} ({}): {m}", if res.is_ok() { "ok" } else { "failed" }));
    }
    res
}

/// Runs one holding case; returns violation messages.
pub fn run_hold_case(case: &HoldCase) -> Vec<Viol> {
    let mut model: HModel = vec![BTreeMap::new(); case.depth];
    let mut reg = StateRegistry::new();
    for k in 0..case.depth {
        if k > 0 {
            reg = reg.into_child();
        }
        for t in 0..3u8 {
            if case.placement[t as usize] & (1 << k) != 0 {
                let v = 10 * (k as u32 + 1) + t as u32;
                h_insert(&mut reg, t, v);
                model[k].insert(t, v);
            }
        }
    }
    let mut st: State<'static, TagP> = reg.into();
    let mut trace = Vec::new();
    let res = catch(|| nest_level(&mut st, &mut model, case, 1, &mut trace).map_err(|e| e.to_string()));
    let mut out = Vec::new();
    let same_type_nested = {
        let mut n = case.nest.clone();
        n.sort();
        n.dedup();
        n.len() != case.nest.len()
    };
    let class = format!(
        "holding:{}:{}",
        if case.fail_level > 0 { "closure-fails" } else { "closure-ok" },
        if same_type_nested { "same-type-nested" } else { "distinct-types" }
    );
    match res {
        Err(p) => out.push((format!("{class}:panic"), format!("panicked: {p}"))),
        Ok(r) => {
            // expected result: error iff a level fails or a type is absent when requested
            let expect_fail = case.fail_level > 0 && case.fail_level <= case.nest.len();
            if let (Ok(()), true) = (&r, expect_fail) {
                // a failing level deeper than an absent type never runs: only flag if nothing was absent
                if trace.is_empty() && all_present(case) {
                    out.push((format!("{class}:error-swallowed"), "a closure failed but holding returned Ok".into()));
                }
            }
            if let Err(e) = &r {
                if expect_fail && all_present(case) && !e.contains("injected at level") {
                    out.push((format!("{class}:wrong-error"), format!("returned error {e:?} instead of the closure's error")));
                }
                if !expect_fail && all_present(case) {
                    out.push((format!("{class}:spurious-error"), format!("returned {e:?}")));
                }
            }
        }
    }
    if let Some(m) = h_sweep(&st, &model) {
        trace.push(format!("final state: {m}"));
    }
    for t in trace {
        let kind = if t.contains("final state") || t.contains("after holding") {
            "not-put-back-into-source-scope"
        } else if t.contains("inside holding") {
            "state-inside-closure-wrong"
        } else {
            "other"
        };
        out.push((format!("{class}:{kind}"), t));
    }
    out
}

/// Whether every requested type is present when its level asks for it (taking nested removals into account).
fn all_present(case: &HoldCase) -> bool {
    let mut counts = [0u32; 3];
    for t in 0..3 {
        counts[t] = (case.placement[t] & ((1u8 << case.depth) - 1)).count_ones();
    }
    for &t in &case.nest {
        if counts[t as usize] == 0 {
            return false;
        }
        counts[t as usize] -= 1;
    }
    true
}

pub fn all_hold_cases() -> Vec<HoldCase> {
    let mut out = Vec::new();
    for depth in 1..=3usize {
        let masks = 1u8 << depth;
        for p0 in 0..masks {
            for p1 in 0..masks {
                for p2 in 0..masks {
                    for len in 1..=3usize {
                        for code in 0..3usize.pow(len as u32) {
                            let mut nest = Vec::new();
                            let mut c = code;
                            for _ in 0..len {
                                nest.push((c % 3) as u8);
                                c /= 3;
                            }
                            for fail_level in 0..=len {
                                out.push(HoldCase { placement: [p0, p1, p2], depth, nest: nest.clone(), fail_level });
                            }
                        }
                    }
                }
            }
        }
    }
    out
}

pub fn random_hold_case(rng: &mut crate::util::SplitMix64) -> HoldCase {
    let depth = 1 + rng.usize(3);
    let masks = 1u64 << depth;
    let len = 1 + rng.usize(3);
    HoldCase {
        placement: [rng.below(masks) as u8, rng.below(masks) as u8, rng.below(masks) as u8],
        depth,
        nest: (0..len).map(|_| rng.below(3) as u8).collect(),
        fail_level: rng.usize(len + 1),
    }
}
