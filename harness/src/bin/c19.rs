//! C19 — ant-colony generation yields valid tours; pheromone updates are well-formed (step observer).
use std::sync::Mutex;

use mahf::{
    components::{generative, initialization},
    conditions::LessThanN,
    heuristics::aco,
    state::common::Populations,
    verif::StepEvent,
    Configuration, State,
};
use mv::{hash_of, num_workers, observe::run_observed, problems::*, Reporter, SplitMix64};
use serde_json::json;

type P = Tsp;

#[derive(Clone, Debug, serde::Serialize)]
struct Params {
    n: usize,
    kind: DistKind,
    inst_seed: u64,
    ants: usize,
    alpha: f64,
    beta: f64,
    default_pheromones: f64,
    evaporation: f64,
    /// Some((max, min)) = max-min ant system, None = ant system with `decay`
    bounds: Option<(f64, f64)>,
    decay: f64,
    iterations: u32,
    seed: u64,
    via_template: bool,
    /// a screening evaluation (another evaluator, identifier A, constant value) runs before the real evaluation step
    screening: bool,
    /// an ant system (ants, iterations) run to completion inside a scope at the end of every pass of the outer colony
    nested: Option<(usize, u32)>,
    /// the colony takes over a population of this many random tours instead of an empty one
    prefill: Option<u32>,
    /// the pheromone update is the first step of the pass (it then works on the tours of the previous pass, and on an
    /// empty population in the first pass: it still evaporates)
    update_first: bool,
}

#[derive(Default)]
struct Recs {
    by_depth: std::collections::BTreeMap<usize, Rec>,
    closed: Vec<Rec>,
}

#[derive(Default)]
struct Rec {
    matrix_before: Vec<Vec<f64>>,
    /// the trails as the last update of this colony left them: nothing else may change them
    matrix_after_last_update: Option<Vec<Vec<f64>>>,
    generations: u64,
    updates: u64,
    tours_checked: u64,
    min_trail_seen: f64,
    max_trail_seen: f64,
    violations: Vec<(String, String)>,
}

fn matrix(state: &State<P>, n: usize) -> Vec<Vec<f64>> {
    let pm = state.borrow::<generative::PheromoneMatrix>();
    (0..n).map(|i| pm[i].to_vec()).collect()
}

/// Parameters of the colony nested in the scope (an ant system on the same instance).
fn inner_params(prm: &Params) -> Params {
    let (ants, iterations) = prm.nested.unwrap_or((1, 1));
    Params { ants, iterations, bounds: None, evaporation: 0.5, default_pheromones: 7.0, alpha: 1.0, beta: 1.0, decay: 3.0, nested: None, screening: false, prefill: None, update_first: false, ..prm.clone() }
}

fn observe(recs: &Mutex<Recs>, outer_prm: &Params, ev: StepEvent<'_, P>, problem: &P, state: &State<P>) {
    let StepEvent::BlockChild { before, component, .. } = ev else { return };
    let name = mv::sniff::name_of(component);
    let depth = mv::observe::scope_depth(state);
    let inner;
    let prm = if depth > 1 {
        inner = inner_params(outer_prm);
        &inner
    } else {
        outer_prm
    };
    let n = prm.n;
    let mut all = recs.lock().unwrap();
    let gone: Vec<usize> = all.by_depth.keys().copied().filter(|d| *d > depth).collect();
    for d in gone {
        let r = all.by_depth.remove(&d).unwrap();
        all.closed.push(r);
    }
    let r = all.by_depth.entry(depth).or_insert_with(|| Rec { min_trail_seen: f64::INFINITY, max_trail_seen: 0.0, ..Default::default() });
    // between two updates of a colony its trails belong to it alone
    if before && matches!(name.as_str(), "AcoGeneration" | "AsPheromoneUpdate" | "MinMaxPheromoneUpdate") {
        if let Some(last) = &r.matrix_after_last_update {
            let now = matrix(state, n);
            if now.iter().flatten().map(|x| x.to_bits()).ne(last.iter().flatten().map(|x| x.to_bits())) {
                r.violations.push(("trails:changed-between-two-updates-of-the-colony".into(), format!("before {name}: the pheromone matrix differs from what the colony's last update left")));
                r.matrix_after_last_update = None;
            }
        }
    }
    match name.as_str() {
        "AcoGeneration" if !before => {
            r.generations += 1;
            let m = matrix(state, n);
            let pops = state.populations();
            let cur = pops.current();
            if cur.len() != prm.ants + 1 {
                r.violations.push(("generation:wrong-number-of-tours".into(), format!("{} tours for {} ants", cur.len(), prm.ants)));
                return;
            }
            for (k, ind) in cur.iter().enumerate() {
                r.tours_checked += 1;
                let t = ind.solution();
                let mut s = t.clone();
                s.sort();
                if s != (0..n).collect::<Vec<_>>() || t.first() != Some(&0) {
                    r.violations.push(("generation:tour-is-not-a-permutation-of-all-cities-starting-at-city-0".into(), format!("tour {k}: {t:?}")));
                    return;
                }
                if ind.is_evaluated() {
                    r.violations.push(("generation:new-tours-reported-as-evaluated".into(), format!("tour {k}")));
                }
            }
            // the first tour is greedy w.r.t. the pheromone matrix (tie-agnostic)
            let g = cur[0].solution();
            let mut remaining: Vec<usize> = (1..n).collect();
            for w in g.windows(2) {
                let best = remaining.iter().map(|&c| m[w[0]][c]).fold(f64::NEG_INFINITY, f64::max);
                if m[w[0]][w[1]] < best {
                    r.violations.push(("generation:first-tour-is-not-greedy".into(), format!("greedy tour {g:?}: from city {} it goes to {} (pheromone {}) although a remaining city has {}", w[0], w[1], m[w[0]][w[1]], best)));
                    break;
                }
                remaining.retain(|&c| c != w[1]);
            }
        }
        "AsPheromoneUpdate" | "MinMaxPheromoneUpdate" => {
            if before {
                r.matrix_before = matrix(state, n);
                return;
            }
            r.updates += 1;
            let old = std::mem::take(&mut r.matrix_before);
            let new = matrix(state, n);
            let pops = state.populations();
            let cur = pops.current();
            let rho = prm.evaporation;
            // expected matrix: evaporate every trail, then deposit on the consecutive-city edges of the rewarded tours
            let mut want: Vec<Vec<f64>> = old.iter().map(|row| row.iter().map(|x| x * (1.0 - rho)).collect()).collect();
            // tour lengths are recomputed from the distance matrix, not read from the individuals
            let len = |i: &mahf::Individual<P>| problem.f_pure(i.solution());
            let rewarded: Vec<(&Vec<usize>, f64)> = match prm.bounds {
                None => cur.iter().skip(1).map(|i| (i.solution(), prm.decay / len(i))).collect(),
                Some(_) => cur.iter().skip(1).min_by(|a, b| len(a).partial_cmp(&len(b)).unwrap()).map(|i| vec![(i.solution(), 1.0 / len(i))]).unwrap_or_default(),
            };
            for (tour, delta) in &rewarded {
                for w in tour.windows(2) {
                    want[w[0]][w[1]] += delta;
                    want[w[1]][w[0]] += delta;
                }
            }
            if let Some((mx, mn)) = prm.bounds {
                for row in want.iter_mut() {
                    for x in row.iter_mut() {
                        *x = x.clamp(mn, mx);
                    }
                }
            }
            // ties between equally short best tours: the max-min update may reward another one of the same length
            let tie_ambiguous = prm.bounds.is_some() && {
                let best = cur.iter().skip(1).map(len).fold(f64::INFINITY, f64::min);
                cur.iter().skip(1).filter(|i| len(i) == best).map(|i| i.solution()).collect::<std::collections::HashSet<_>>().len() > 1
            };
            let which = if prm.bounds.is_some() { "max-min" } else { "ant-system" };
            let mut bad: Option<(String, String)> = None;
            for a in 0..n {
                for b in 0..n {
                    if a == b {
                        continue;
                    }
                    let (x, w) = (new[a][b], want[a][b]);
                    r.min_trail_seen = r.min_trail_seen.min(x);
                    r.max_trail_seen = r.max_trail_seen.max(x);
                    if !x.is_finite() || x < 0.0 {
                        bad = Some((format!("update:{which}:trail-not-finite-or-negative"), format!("trail ({a},{b}) = {x}")));
                    } else if let Some((mx, mn)) = prm.bounds {
                        if x < mn || x > mx {
                            let kind = if x < mn { "below-min" } else { "above-max" };
                            let rewarded_edge = rewarded.iter().any(|(t, _)| t.windows(2).any(|w| (w[0] == a && w[1] == b) || (w[0] == b && w[1] == a)));
                            bad = Some((format!("update:max-min:trail-{kind}:{}", if rewarded_edge { "rewarded-edge" } else { "evaporated-only-edge" }), format!("trail ({a},{b}) = {x} outside [{mn}, {mx}] (before the update: {})", old[a][b])));
                        }
                    }
                    if bad.is_none() && new[a][b].to_bits() != new[b][a].to_bits() && (new[a][b] - new[b][a]).abs() > 1e-12 * new[a][b].abs().max(1e-300) {
                        bad = Some((format!("update:{which}:not-symmetric"), format!("trail ({a},{b}) = {} but ({b},{a}) = {}", new[a][b], new[b][a])));
                    }
                    if bad.is_none() && !tie_ambiguous && (x - w).abs() > 1e-9 * w.abs().max(1e-300) {
                        let on_edge = rewarded.iter().any(|(t, _)| t.windows(2).any(|e| (e[0] == a && e[1] == b) || (e[0] == b && e[1] == a)));
                        bad = Some((
                            format!("update:{which}:{}", if on_edge { "wrong-reinforcement-of-a-rewarded-edge" } else { "trail-off-the-rewarded-tours-not-just-evaporated" }),
                            format!("trail ({a},{b}): before {}, after {x}, expected {w} (evaporation {rho}, {} rewarded tour(s))", old[a][b], rewarded.len()),
                        ));
                    }
                }
            }
            if let Some(b) = bad {
                r.violations.push(b);
            }
            r.matrix_after_last_update = Some(new);
        }
        _ => {}
    }
}

/// Screening stage: another evaluator, registered under identifier A, that gives every tour the same value.
struct Screen;
impl mahf::problems::Evaluate for Screen {
    type Problem = P;
    fn evaluate(&mut self, _problem: &P, _state: &mut State<P>, individuals: &mut [mahf::Individual<P>]) {
        for i in individuals {
            i.evaluate_with(|_| 1.0f64.try_into().unwrap());
        }
    }
}

#[derive(Clone, serde::Serialize)]
struct PopTop;
impl mahf::Component<P> for PopTop {
    fn execute(&self, _problem: &P, state: &mut State<P>) -> mahf::ExecResult<()> {
        state.populations_mut().pop();
        Ok(())
    }
}

fn build(prm: &Params) -> Result<Configuration<P>, String> {
    if prm.via_template {
        return match prm.bounds {
            None => aco::ant_system::<P>(aco::ASParameters::verif_new(prm.ants, prm.alpha, prm.beta, prm.default_pheromones, prm.evaporation, prm.decay), LessThanN::iterations(prm.iterations)),
            Some((mx, mn)) => aco::max_min_ant_system::<P>(aco::MMASParameters::verif_new(prm.ants, prm.alpha, prm.beta, prm.default_pheromones, prm.evaporation, mx, mn), LessThanN::iterations(prm.iterations)),
        }
        .map_err(|e| format!("{e:#}"));
    }
    let update = match prm.bounds {
        None => generative::AsPheromoneUpdate::new(prm.evaporation, prm.decay),
        Some((mx, mn)) => generative::MinMaxPheromoneUpdate::new(prm.evaporation, mx, mn).map_err(|e| e.to_string())?,
    };
    let nested: Option<Box<dyn mahf::Component<P>>> = prm.nested.map(|_| {
        let ip = inner_params(prm);
        mahf::components::Scope::new(vec![
            initialization::Empty::new(),
            mahf::components::Loop::new(
                LessThanN::iterations(ip.iterations),
                vec![
                    generative::AcoGeneration::new(ip.ants, ip.alpha, ip.beta, ip.default_pheromones),
                    mahf::components::evaluation::PopulationEvaluator::new(),
                    generative::AsPheromoneUpdate::new(ip.evaporation, ip.decay),
                ],
            ),
            Box::new(PopTop) as Box<dyn mahf::Component<P>>,
        ])
    });
    let screening = prm.screening;
    let start: Box<dyn mahf::Component<P>> = match prm.prefill {
        Some(k) => initialization::RandomPermutation::new(k),
        None => initialization::Empty::new(),
    };
    let update_first = prm.update_first;
    Ok(Configuration::builder()
        .do_(start)
        .while_(LessThanN::iterations(prm.iterations), |b| {
            let b = if update_first { b.do_(update.clone()) } else { b };
            let b = b.do_(generative::AcoGeneration::new(prm.ants, prm.alpha, prm.beta, prm.default_pheromones));
            let b = if screening { b.evaluate_with::<mahf::identifier::A>() } else { b };
            let b = b.evaluate().update_best_individual();
            let b = if update_first { b } else { b.do_(update) };
            b.do_if_some_(nested)
        })
        .build())
}

fn run(rep: &Reporter, prm: &Params) {
    let problem = Tsp::new(prm.n, prm.kind, prm.inst_seed);
    let cfg = match build(prm) {
        Ok(c) => c,
        Err(e) => {
            rep.violation("aco:constructor-rejects-valid-parameters", json!({"params": prm, "error": e}));
            return;
        }
    };
    let rec = Mutex::new(Recs::default());
    let res = mv::observe::run_observed_prepared(&cfg, &problem, prm.seed, false, None, |state| state.insert_evaluator_as::<mahf::identifier::A>(Screen), |ev, p, s| observe(&rec, prm, ev, p, s));
    rep.case();
    rep.nontrivial(hash_of(&format!("{prm:?}")));
    let mut all = rec.lock().unwrap();
    let mut r = Rec { min_trail_seen: f64::INFINITY, max_trail_seen: 0.0, ..Default::default() };
    let by_depth = std::mem::take(&mut all.by_depth);
    let closed = std::mem::take(&mut all.closed);
    rep.count("nested_colony_instances_observed", closed.len() as u64);
    for part in by_depth.into_values().chain(closed) {
        r.generations += part.generations;
        r.updates += part.updates;
        r.tours_checked += part.tours_checked;
        r.min_trail_seen = r.min_trail_seen.min(part.min_trail_seen);
        r.max_trail_seen = r.max_trail_seen.max(part.max_trail_seen);
        r.violations.extend(part.violations);
    }
    rep.count("generations_observed", r.generations);
    rep.count("pheromone_updates_observed", r.updates);
    rep.count("tours_checked", r.tours_checked);
    if r.min_trail_seen < 1e-12 {
        rep.count("runs_reaching_very_small_trails", 1);
    }
    if let Err(p) = &res {
        rep.violation(&format!("aco:panic:{}", if prm.bounds.is_some() { "max-min" } else { "ant-system" }), json!({"params": prm, "panic": p}));
    } else if let Ok(Err(e)) = &res {
        rep.violation("aco:run-failed", json!({"params": prm, "error": e}));
    }
    let mut seen = std::collections::HashSet::new();
    for (sig, msg) in r.violations.iter() {
        if seen.insert(sig.clone()) {
            rep.violation(sig, json!({"params": prm, "observed": msg}));
        }
    }
    if rep.want_sample() && r.updates > 10 {
        rep.sample(json!({"params": prm, "generations": r.generations, "updates": r.updates, "smallest_trail_seen": r.min_trail_seen, "largest_trail_seen": r.max_trail_seen}));
    }
}

fn main() {
    let rep = Reporter::from_args("C19");
    rep.rule("runs of the two ACO templates and of harness-assembled generate/evaluate/update loops over instance sizes 2..10, three distance families (incl. distances spanning 1e-6..1e6), ants 0..8, alpha/beta in {0,1,2,5}, evaporation in {0,.1,.5,.99,1}, default pheromones in {1e-3,.5,1,10}, max-min bounds, up to 200 iterations (reaching very small and saturated trails), seeds; observed at the step-observer hook: after every generation 1+ants tours, each a permutation of all cities starting at 0, the first greedy w.r.t. the matrix; around every pheromone update the whole matrix before/after: expected = evaporate every trail, then deposit decay/length (ant system: every sampled tour; max-min: 1/length on the best sampled tour) symmetrically on exactly the consecutive-city edges, clamp to the bounds for max-min; all off-diagonal trails finite, >= 0 and, for max-min, within [min,max]; tour lengths in the expectation are recomputed from the distance matrix (variants with a screening evaluation stage under another identifier before the real one); between two updates of a colony its trails are bit-identical (variants with a second colony run to completion inside a scope in every pass; records per scope depth). distinct_nontrivial = distinct parameter cells");
    rep.assume("evaporation in [0,1], positive symmetric distances, at least one ant for max-min, min < max pheromones; ties between equally short best tours make the max-min expectation ambiguous and are then only checked for bounds/symmetry");
    let mut rng = SplitMix64::new(rep.seed).fork(0xC19);
    let mut cells = Vec::new();
    for k in 0..rep.tier.pick(5_000, 4_000_000) {
        let bounds = if k % 2 == 0 { None } else { Some(*rng.pick(&[(5.0, 0.01), (1.0, 0.1), (2.0, 1e-6), (100.0, 0.5), (0.3, 0.2)])) };
        cells.push(Params {
            n: 2 + rng.usize(9),
            kind: *rng.pick(&[DistKind::Random, DistKind::Clustered, DistKind::VeryUnequal]),
            inst_seed: rng.below(1000),
            // (no sampled tours at all - only the greedy one - is a valid request too: the update then only evaporates)
            // (only for the ant system: the max-min update rewards the best sampled tour and has nothing to reward without one)
            ants: if bounds.is_none() && rng.chance(0.15) { 0 } else { 1 + rng.usize(8) },
            alpha: *rng.pick(&[0.0, 1.0, 2.0, 5.0]),
            beta: *rng.pick(&[0.0, 1.0, 2.0, 5.0]),
            default_pheromones: *rng.pick(&[1e-3, 0.5, 1.0, 10.0]),
            evaporation: *rng.pick(&[0.0, 0.1, 0.5, 0.99, 1.0]),
            bounds,
            decay: *rng.pick(&[1.0, 0.1, 2.0]),
            iterations: *rng.pick(&[1u32, 3, 20, 200]),
            seed: rng.below(1 << 40),
            via_template: k % 3 == 0,
            screening: k % 3 != 0 && rng.chance(0.3),
            nested: if k % 3 != 0 && rng.chance(0.25) { Some((1 + rng.usize(3), 1 + rng.below(3) as u32)) } else { None },
            prefill: if k % 3 != 0 && rng.chance(0.2) { Some(10 + rng.below(6) as u32) } else { None },
            update_first: false,
        });
        // (the update as the first step: only for the ant system and without a prefilled population - the tours it rewards
        // must be evaluated, and the max-min update has nothing to reward in the first pass)
        let last = cells.last_mut().unwrap();
        if k % 3 != 0 && last.bounds.is_none() && last.prefill.is_none() && last.nested.is_none() && k % 5 == 1 {
            last.update_first = true;
        }
    }
    std::thread::scope(|s| {
        for range in mv::shards(cells.len(), num_workers()) {
            let cells = &cells;
            let rep = &rep;
            s.spawn(move || {
                for i in range {
                    run(rep, &cells[i]);
                }
            });
        }
    });
    if rep.counter("generations_observed") == 0 || rep.counter("pheromone_updates_observed") == 0 {
        rep.inconclusive("hook never reached for the ACO steps");
    }
    let _ = Populations::<P>::new;
    rep.finish();
}
