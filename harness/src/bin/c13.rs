//! C13 — variation operators keep solutions well-formed and conserve parental genes.
use mahf::{
    components::{
        mutation::{self, functional as mf},
        recombination::{self, functional as rf},
    },
    population::IntoIndividuals,
    problems::VectorProblem,
    state::{common::Populations, Random},
    Component, Individual, Problem, State,
};
use mv::{catch, hash_of, problems::*, Reporter, SplitMix64};
use serde_json::json;

fn is_perm_of(a: &[usize], b: &[usize]) -> bool {
    let mut x = a.to_vec();
    let mut y = b.to_vec();
    x.sort();
    y.sort();
    x == y
}

fn permutations(n: usize) -> Vec<Vec<usize>> {
    fn rec(cur: &mut Vec<usize>, used: &mut Vec<bool>, n: usize, out: &mut Vec<Vec<usize>>) {
        if cur.len() == n {
            out.push(cur.clone());
            return;
        }
        for i in 0..n {
            if !used[i] {
                used[i] = true;
                cur.push(i);
                rec(cur, used, n, out);
                cur.pop();
                used[i] = false;
            }
        }
    }
    let mut out = Vec::new();
    rec(&mut Vec::new(), &mut vec![false; n], n, &mut out);
    out
}

/// all ordered tuples of k distinct indices from 0..n
fn index_tuples(n: usize, k: usize) -> Vec<Vec<usize>> {
    fn rec(cur: &mut Vec<usize>, n: usize, k: usize, out: &mut Vec<Vec<usize>>) {
        if cur.len() == k {
            out.push(cur.clone());
            return;
        }
        for i in 0..n {
            if !cur.contains(&i) {
                cur.push(i);
                rec(cur, n, k, out);
                cur.pop();
            }
        }
    }
    let mut out = Vec::new();
    rec(&mut Vec::new(), n, k, &mut out);
    out
}

fn helpers_permutation(rep: &Reporter) {
    let mut rng = SplitMix64::new(rep.seed).fork(0xC13);
    let max_len = 7usize;
    let mut swaps = 0u64;
    let mut translocations = 0u64;
    for len in 2..=max_len {
        let mut bases: Vec<Vec<usize>> = vec![(0..len).collect()];
        for _ in 0..3 {
            let mut p: Vec<usize> = (0..len).map(|x| x * 3 + 1).collect(); // arbitrary distinct elements
            rng.shuffle(&mut p);
            bases.push(p);
        }
        for base in &bases {
            // circular swap: every ordered tuple of >= 2 distinct indices
            for k in 2..=len {
                if len == 7 && k >= 6 && !std::ptr::eq(base, &bases[0]) {
                    continue; // 5040 tuples each; identity only
                }
                for idx in index_tuples(len, k) {
                    swaps += 1;
                    let mut a = base.clone();
                    let mut b = base.clone();
                    let ra = catch(|| mf::circular_swap(&mut a, &idx));
                    let rb = catch(|| mf::circular_swap2(&mut b, &idx));
                    if ra.is_err() || rb.is_err() {
                        rep.violation("circular_swap:panic-on-valid-indices", json!({"permutation": base, "indices": idx, "circular_swap": format!("{ra:?}"), "circular_swap2": format!("{rb:?}")}));
                        continue;
                    }
                    // reference: the element at idx[i] moves to idx[i+1]
                    let mut want = base.clone();
                    for i in 0..k {
                        want[idx[(i + 1) % k]] = base[idx[i]];
                    }
                    if a != b {
                        rep.violation("circular_swap:two-implementations-disagree", json!({"permutation": base, "indices": idx, "circular_swap": a, "circular_swap2": b}));
                    } else if !is_perm_of(&a, base) {
                        rep.violation("circular_swap:result-not-a-permutation-of-the-input", json!({"permutation": base, "indices": idx, "result": a}));
                    } else if a != want {
                        rep.violation("circular_swap:not-a-circular-shift-of-the-indexed-elements", json!({"permutation": base, "indices": idx, "result": a, "expected": want}));
                    }
                }
            }
            // slice translocation: all ranges and all admissible insertion indices
            for start in 0..len {
                for end in start..=len {
                    let chunk = end - start;
                    for index in 0..len {
                        if index + chunk > len {
                            continue;
                        }
                        translocations += 1;
                        let mut a = base.clone();
                        let mut b = base.clone();
                        let ra = catch(|| mf::translocate_slice(&mut a, start..end, index));
                        let rb = catch(|| mf::translocate_slice2(&mut b, start..end, index));
                        let class = if end == len { "range-ends-at-len" } else { "inner-range" };
                        if ra.is_err() || rb.is_err() {
                            rep.violation(&format!("translocate_slice:panic-on-valid-input:{class}"), json!({"permutation": base, "range": [start, end], "index": index, "translocate_slice": format!("{ra:?}"), "translocate_slice2": format!("{rb:?}")}));
                            continue;
                        }
                        let mut want = base.clone();
                        let slice: Vec<usize> = want.drain(start..end).collect();
                        for (o, x) in slice.into_iter().enumerate() {
                            want.insert(index + o, x);
                        }
                        if a != b {
                            rep.violation("translocate_slice:two-implementations-disagree", json!({"permutation": base, "range": [start, end], "index": index, "translocate_slice": a, "translocate_slice2": b}));
                        } else if a != want {
                            rep.violation("translocate_slice:slice-not-moved-to-index", json!({"permutation": base, "range": [start, end], "index": index, "result": a, "expected": want}));
                        }
                    }
                }
            }
        }
    }
    rep.cases(swaps + translocations);
    rep.count("circular_swap_cases", swaps);
    rep.count("translocate_slice_cases", translocations);
    rep.nontrivial(hash_of(&("helpers", swaps)));
    // cycle crossover: all pairs of permutations up to length 5
    let mut cycles = 0u64;
    for len in 1..=5usize {
        let perms = permutations(len);
        for p1 in &perms {
            for p2 in &perms {
                cycles += 1;
                match catch(|| rf::cycle_crossover(p1, p2)) {
                    Ok([c1, c2]) => {
                        let ok = c1.len() == len
                            && c2.len() == len
                            && is_perm_of(&c1, p1)
                            && is_perm_of(&c2, p1)
                            && (0..len).all(|i| (c1[i] == p1[i] && c2[i] == p2[i]) || (c1[i] == p2[i] && c2[i] == p1[i]));
                        if !ok {
                            rep.violation("cycle_crossover:children-not-valid", json!({"p1": p1, "p2": p2, "c1": c1, "c2": c2}));
                        }
                    }
                    Err(p) => rep.violation("cycle_crossover:panic", json!({"p1": p1, "p2": p2, "panic": p})),
                }
            }
        }
    }
    rep.cases(cycles);
    rep.count("cycle_crossover_pairs", cycles);
}

fn helpers_crossover(rep: &Reporter) {
    let mut cases = 0u64;
    for len in 1..=4usize {
        let n = 3usize.pow(len as u32);
        let parents: Vec<Vec<u8>> = (0..n).map(|mut c| (0..len).map(|_| { let v = (c % 3) as u8; c /= 3; v }).collect()).collect();
        for p1 in &parents {
            for p2 in &parents {
                // all masks
                for m in 0..(1u32 << len) {
                    cases += 1;
                    let mask: Vec<bool> = (0..len).map(|i| m & (1 << i) != 0).collect();
                    match catch(|| rf::uniform_crossover(p1, p2, &mask)) {
                        Ok([c1, c2]) => {
                            let ok = c1.len() == len && c2.len() == len && (0..len).all(|i| if mask[i] { c1[i] == p2[i] && c2[i] == p1[i] } else { c1[i] == p1[i] && c2[i] == p2[i] });
                            if !ok {
                                rep.violation("uniform_crossover:wrong-children", json!({"p1": p1, "p2": p2, "mask": mask, "c1": c1, "c2": c2}));
                            }
                        }
                        Err(p) => rep.violation("uniform_crossover:panic", json!({"p1": p1, "p2": p2, "mask": mask, "panic": p})),
                    }
                }
                // all cut sets: non-empty sets of indices, fewer than len, in both orders
                if len >= 2 {
                    for set in 1..(1u32 << len) {
                        let cuts: Vec<usize> = (0..len).filter(|i| set & (1 << i) != 0).collect();
                        if cuts.len() >= len {
                            continue;
                        }
                        for rev in [false, true] {
                            cases += 1;
                            let mut idx = cuts.clone();
                            if rev {
                                idx.reverse();
                            }
                            match catch(|| rf::multi_point_crossover(p1, p2, &idx)) {
                                Ok([c1, c2]) => {
                                    let parity = |i: usize| cuts.iter().filter(|c| **c <= i).count() % 2 == 1;
                                    let ok = c1.len() == len && c2.len() == len && (0..len).all(|i| if parity(i) { c1[i] == p2[i] && c2[i] == p1[i] } else { c1[i] == p1[i] && c2[i] == p2[i] });
                                    if !ok {
                                        rep.violation("multi_point_crossover:wrong-children", json!({"p1": p1, "p2": p2, "cut_indices": idx, "c1": c1, "c2": c2}));
                                    }
                                }
                                Err(p) => rep.violation("multi_point_crossover:panic", json!({"p1": p1, "p2": p2, "cut_indices": idx, "panic": p})),
                            }
                        }
                    }
                }
            }
        }
    }
    // arithmetic crossover on a value grid
    let vals = [-3.5, 0.0, 1.0, 1e6, -1e-6, f64::MAX, -f64::MAX, 1.5e308, -1.5e308, 1e-320];
    let alphas = [0.0, 0.25, 0.5, 1.0, 0.9999];
    for &a in &vals {
        for &b in &vals {
            for &al in &alphas {
                cases += 1;
                let [c1, c2] = rf::arithmetic_crossover(&[a, b], &[b, a], &[al, al]);
                for i in 0..2 {
                    let (p, q) = if i == 0 { (a, b) } else { (b, a) };
                    let (lo, hi) = (p.min(q), p.max(q));
                    let tol = 1e-9 * (1.0 + hi.abs().max(lo.abs())).min(f64::MAX / 4.0);
                    if !c1[i].is_finite() || !c2[i].is_finite() {
                        rep.violation("arithmetic_crossover:finite-genes-give-a-non-finite-child", json!({"p1": [a, b], "p2": [b, a], "alpha": al, "c1": format!("{c1:?}"), "c2": format!("{c2:?}")}));
                        continue;
                    }
                    if c1[i] < lo - tol || c1[i] > hi + tol || c2[i] < lo - tol || c2[i] > hi + tol || (c1[i] / 2.0 + c2[i] / 2.0 - (p / 2.0 + q / 2.0)).abs() > tol {
                        rep.violation("arithmetic_crossover:not-a-convex-combination-or-sum-not-conserved", json!({"p1": [a, b], "p2": [b, a], "alpha": al, "c1": c1, "c2": c2}));
                    }
                }
            }
        }
    }
    rep.cases(cases);
    rep.count("crossover_helper_cases", cases);
}

// ---- components -------------------------------------------------------------------------------------
struct Run<E> {
    result: Result<Result<(), String>, String>,
    stack: Vec<Vec<(E, bool)>>, // bottom..top; (solution, evaluated)
}

fn run_comp<P>(problem: &P, comp: &dyn Component<P>, stack: &[Vec<P::Encoding>], seed: u64, evaluated: bool) -> Run<P::Encoding>
where
    P: Instrumented,
{
    run_comp_under(problem, comp, None, stack, seed, evaluated)
}

/// With `twin`: the twin (same operator, other parameter values) is initialised in the caller's state and
/// `comp` is then initialised and executed inside a scope opened over it - what `Scope` does when the same
/// operator is used at two levels of a configuration. `comp` must behave according to its own parameters.
fn run_comp_under<P>(problem: &P, comp: &dyn Component<P>, twin: Option<&dyn Component<P>>, stack: &[Vec<P::Encoding>], seed: u64, evaluated: bool) -> Run<P::Encoding>
where
    P: Instrumented,
{
    let mut st = State::<P>::new();
    let mut pops = Populations::<P>::new();
    for p in stack {
        let inds: Vec<Individual<P>> = if evaluated {
            p.iter().map(|s| Individual::new(s.clone(), problem.pure(s).try_into().unwrap())).collect()
        } else {
            p.clone().into_individuals()
        };
        pops.push(inds);
    }
    st.insert(pops);
    st.insert(Random::new(seed));
    let result = catch(|| match twin {
        None => {
            comp.init(problem, &mut st).map_err(|e| format!("init: {e:#}"))?;
            comp.execute(problem, &mut st).map_err(|e| format!("{e:#}"))
        }
        Some(twin) => {
            twin.init(problem, &mut st).map_err(|e| format!("init of the outer twin: {e:#}"))?;
            st.with_inner_state(|inner| {
                comp.init(problem, inner)?;
                comp.execute(problem, inner)
            })
            .map(|_| ())
            .map_err(|e| format!("inside the scope: {e:#}"))
        }
    });
    let pops = st.populations();
    let mut out = Vec::new();
    let mut d = 0;
    while let Some(p) = pops.try_peek(d) {
        out.push(p.iter().map(|i| (i.solution().clone(), i.is_evaluated())).collect());
        d += 1;
    }
    out.reverse();
    Run { result, stack: out }
}

fn outcome_class<E>(r: &Run<E>) -> &'static str {
    match &r.result {
        // every case starts with at least one population on the stack
        Ok(Ok(())) if r.stack.is_empty() => "removes-the-population",
        Ok(Ok(())) => "ok",
        Ok(Err(_)) => "err",
        Err(_) => "panic",
    }
}

fn real_components(rep: &Reporter, rng: &mut SplitMix64, n: usize) {
    for _ in 0..n {
        let dim = 1 + rng.usize(12);
        let problem = Real::new(dim, -5.0, 5.0, RealFn::Sphere);
        let size = rng.usize(10);
        let pop: Vec<Vec<f64>> = (0..size).map(|_| (0..dim).map(|_| rng.f64_in(-5.0, 5.0)).collect()).collect();
        let rate = *rng.pick(&[0.0, 0.3, 1.0]);
        let seed = rng.next_u64();
        // every other case: the operator runs inside a scope opened over a state in which the same operator
        // with the opposite rate (and another strength) has been initialised
        let other = if rate == 0.0 { 1.0 } else { 0.0 };
        let under_twin = rng.bool();
        let muts: Vec<(&str, Box<dyn Component<Real>>, Box<dyn Component<Real>>)> = vec![
            ("NormalMutation", mutation::NormalMutation::new(0.5, rate), mutation::NormalMutation::new(3.0, other)),
            ("UniformMutation", mutation::UniformMutation::new(0.5, rate), mutation::UniformMutation::new(3.0, other)),
            ("PartialRandomSpread", mutation::PartialRandomSpread::new(rate), mutation::PartialRandomSpread::new(other)),
            ("ScrambleMutation", mutation::ScrambleMutation::new(rate), mutation::ScrambleMutation::new(other)),
        ];
        for (name, comp, twin) in muts {
            rep.case();
            rep.nontrivial(hash_of(&(name, dim, size, rate.to_bits(), under_twin)));
            let r = run_comp_under(&problem, comp.as_ref(), under_twin.then_some(twin.as_ref()), &[pop.clone()], seed, true);
            rep.distinct("operator_outcomes", hash_of(&(name, outcome_class(&r))));
            if under_twin {
                rep.count("runs_inside_a_scope_over_a_twin", 1);
            }
            let ctx = || json!({"operator": name, "rate": rate, "dimension": dim, "population_size": size, "seed": seed, "inside_a_scope_over_the_same_operator_with_rate": under_twin.then_some(other)});
            if outcome_class(&r) != "ok" {
                rep.violation(&format!("{name}:{}-on-valid-population", outcome_class(&r)), json!({"case": ctx(), "result": format!("{:?}", r.result)}));
                continue;
            }
            let after = &r.stack[0];
            if r.stack.len() != 1 || after.len() != size || after.iter().any(|(s, _)| s.len() != dim) {
                rep.violation(&format!("{name}:population-size-or-dimension-changed"), ctx());
                continue;
            }
            if rate == 0.0 && after.iter().zip(&pop).any(|((s, _), o)| s.iter().zip(o).any(|(a, b)| a.to_bits() != b.to_bits())) {
                rep.violation(&format!("{name}:rate-zero-changes-solutions"), ctx());
            }
            if name == "ScrambleMutation" && after.iter().zip(&pop).any(|((s, _), o)| { let mut a: Vec<u64> = s.iter().map(|x| x.to_bits()).collect(); let mut b: Vec<u64> = o.iter().map(|x| x.to_bits()).collect(); a.sort(); b.sort(); a != b }) {
                rep.violation("ScrambleMutation:elements-not-conserved", ctx());
            }
            if name == "PartialRandomSpread" && after.iter().any(|(s, _)| s.iter().any(|x| !(-5.0..5.0).contains(x))) {
                rep.violation("PartialRandomSpread:value-outside-domain", ctx());
            }
        }
        // recombination
        let pc = *rng.pick(&[0.0, 0.5, 1.0]);
        let both = rng.bool();
        let mut recs: Vec<(&str, Box<dyn Component<Real>>, bool)> = vec![
            ("UniformCrossover", recombination::UniformCrossover::new(pc, both), false),
            ("ArithmeticCrossover", recombination::ArithmeticCrossover::new(pc, both), true),
        ];
        if dim >= 2 {
            recs.push(("NPointCrossover(1)", recombination::NPointCrossover::new(1, pc, both), false));
        }
        if dim >= 3 {
            recs.push(("NPointCrossover(2)", recombination::NPointCrossover::new(2, pc, both), false));
        }
        for (name, comp, arithmetic) in recs {
            rep.case();
            rep.nontrivial(hash_of(&(name, dim, size, pc.to_bits(), both)));
            let r = run_comp(&problem, comp.as_ref(), &[pop.clone()], seed, true);
            rep.distinct("operator_outcomes", hash_of(&(name, outcome_class(&r))));
            let ctx = || json!({"operator": name, "pc": pc, "insert_both": both, "dimension": dim, "population_size": size, "seed": seed});
            if outcome_class(&r) != "ok" {
                rep.violation(&format!("{name}:{}-on-valid-population", outcome_class(&r)), json!({"case": ctx(), "result": format!("{:?}", r.result)}));
                continue;
            }
            if r.stack.len() != 1 {
                rep.violation(&format!("{name}:stack-height-changed"), ctx());
                continue;
            }
            let off: Vec<&Vec<f64>> = r.stack[0].iter().map(|x| &x.0).collect();
            if r.stack[0].iter().any(|x| x.1) {
                rep.violation(&format!("{name}:offspring-reported-as-evaluated"), ctx());
            }
            // walk the pairs
            let mut k = 0usize;
            let mut ok = true;
            let mut why = String::new();
            let same = |a: &Vec<f64>, b: &Vec<f64>| a.len() == b.len() && a.iter().zip(b).all(|(x, y)| x.to_bits() == y.to_bits());
            let child_ok = |c: &Vec<f64>, p1: &Vec<f64>, p2: &Vec<f64>| {
                c.len() == dim
                    && (0..dim).all(|i| {
                        if arithmetic {
                            let (lo, hi) = (p1[i].min(p2[i]), p1[i].max(p2[i]));
                            c[i] >= lo - 1e-9 && c[i] <= hi + 1e-9
                        } else {
                            c[i].to_bits() == p1[i].to_bits() || c[i].to_bits() == p2[i].to_bits()
                        }
                    })
            };
            for pair in pop.chunks(2) {
                match pair {
                    [p1, p2] => {
                        let unchanged = k + 1 < off.len() && same(off[k], p1) && same(off[k + 1], p2);
                        if pc == 0.0 || (unchanged && pc < 1.0) {
                            if !unchanged {
                                ok = false;
                                why = format!("pair {}: crossover probability 0 but parents were not passed on unchanged", k);
                                break;
                            }
                            k += 2;
                        } else if both {
                            if k + 1 >= off.len() || !child_ok(off[k], p1, p2) || !child_ok(off[k + 1], p1, p2) {
                                ok = false;
                                why = "a child is missing or holds a gene of neither parent".into();
                                break;
                            }
                            let conserved = (0..dim).all(|i| {
                                if arithmetic {
                                    (off[k][i] + off[k + 1][i] - (p1[i] + p2[i])).abs() <= 1e-9 * (1.0 + p1[i].abs() + p2[i].abs())
                                } else {
                                    let mut a = [off[k][i].to_bits(), off[k + 1][i].to_bits()];
                                    let mut b = [p1[i].to_bits(), p2[i].to_bits()];
                                    a.sort();
                                    b.sort();
                                    a == b
                                }
                            });
                            if !conserved {
                                ok = false;
                                why = "the two genes of a position are not conserved across the two children".into();
                                break;
                            }
                            k += 2;
                        } else {
                            if k >= off.len() || !child_ok(off[k], p1, p2) {
                                ok = false;
                                why = "the single child is missing or holds a gene of neither parent".into();
                                break;
                            }
                            k += 1;
                        }
                    }
                    [rem] => {
                        if k >= off.len() || !same(off[k], rem) {
                            ok = false;
                            why = "the unpaired last individual was not passed on unchanged".into();
                            break;
                        }
                        k += 1;
                    }
                    _ => unreachable!(),
                }
            }
            if ok && k != off.len() {
                ok = false;
                why = format!("offspring count {} does not follow the insert-one/insert-both and crossover-probability settings ({} accounted for)", off.len(), k);
            }
            if !ok {
                let kind = if why.contains("count") || why.contains("unpaired") || why.contains("missing") { "offspring-count-wrong" } else if why.contains("conserved") { "genes-not-conserved" } else { "children-malformed" };
                rep.violation(&format!("{name}:{kind}"), json!({"case": ctx(), "observed": why}));
            }
        }
    }
}

fn de_components(rep: &Reporter, rng: &mut SplitMix64, n: usize) {
    for _ in 0..n {
        let dim = 1 + rng.usize(8);
        let problem = Real::new(dim, -5.0, 5.0, RealFn::Sphere);
        let y = 1 + rng.below(2) as u32;
        let k = (2 * y + 1) as usize;
        let f: f64 = *rng.pick(&[0.0, 0.5, 1.0, 2.0]);
        let blocks = rng.usize(6);
        let extra = if rng.chance(0.35) { 1 + rng.usize(k - 1) } else { 0 };
        let len = blocks * k + extra;
        let pop: Vec<Vec<f64>> = (0..len).map(|_| (0..dim).map(|_| rng.f64_in(-5.0, 5.0)).collect()).collect();
        let seed = rng.next_u64();
        rep.case();
        rep.nontrivial(hash_of(&("DEMutation", y, f.to_bits(), blocks, extra, dim)));
        let comp = match mutation::de::DEMutation::new::<Real>(y, f) {
            Ok(c) => c,
            Err(e) => {
                rep.violation("DEMutation:constructor-rejects-documented-parameters", json!({"y": y, "f": f, "error": e.to_string()}));
                continue;
            }
        };
        let r = run_comp(&problem, comp.as_ref(), &[pop.clone()], seed, false);
        rep.distinct("operator_outcomes", hash_of(&("DEMutation", outcome_class(&r), extra == 0)));
        let ctx = || json!({"operator": "DEMutation", "y": y, "f": f, "population_length": len, "block_size": k, "dimension": dim});
        match (outcome_class(&r), extra == 0) {
            ("ok", true) => {
                let after = &r.stack[0];
                let mut good = after.len() == blocks;
                if good {
                    for b in 0..blocks {
                        let mut want = pop[b * k].clone();
                        for pair in 0..y as usize {
                            let s1 = &pop[b * k + 1 + 2 * pair];
                            let s2 = &pop[b * k + 2 + 2 * pair];
                            for i in 0..dim {
                                want[i] += f * (s1[i] - s2[i]);
                            }
                        }
                        if after[b].0.iter().zip(&want).any(|(a, w)| (a - w).abs() > 1e-9 * (1.0 + w.abs())) {
                            good = false;
                        }
                    }
                }
                if !good {
                    rep.violation("DEMutation:wrong-mutants", json!({"case": ctx(), "mutants": after.len()}));
                }
            }
            ("err", false) => {}
            ("ok", false) => rep.violation("DEMutation:malformed-population-accepted", ctx()),
            (c, true) => rep.violation(&format!("DEMutation:{c}-on-well-formed-population"), json!({"case": ctx(), "result": format!("{:?}", r.result)})),
            (c, false) => rep.violation(&format!("DEMutation:{c}-on-malformed-population"), json!({"case": ctx(), "result": format!("{:?}", r.result)})),
        }
        // DE crossovers: [bases, mutants] -> [bases, trial], trial position-wise from (mutant, base)
        let nb = rng.usize(6);
        let bases: Vec<Vec<f64>> = (0..nb).map(|_| (0..dim).map(|_| rng.f64_in(-5.0, 5.0)).collect()).collect();
        let mutants: Vec<Vec<f64>> = (0..nb).map(|_| (0..dim).map(|_| rng.f64_in(10.0, 20.0)).collect()).collect();
        let pc = *rng.pick(&[0.0, 0.5, 1.0]);
        for (name, comp) in [("DEBinomialCrossover", recombination::de::DEBinomialCrossover::new::<Real>(pc)), ("DEExponentialCrossover", recombination::de::DEExponentialCrossover::new::<Real>(pc))] {
            rep.case();
            rep.nontrivial(hash_of(&(name, dim, nb, pc.to_bits())));
            let r = run_comp(&problem, comp.as_ref(), &[bases.clone(), mutants.clone()], seed, false);
            rep.distinct("operator_outcomes", hash_of(&(name, outcome_class(&r))));
            let ctx = || json!({"operator": name, "pc": pc, "dimension": dim, "population_size": nb});
            if outcome_class(&r) != "ok" {
                rep.violation(&format!("{name}:{}-on-valid-population", outcome_class(&r)), json!({"case": ctx(), "result": format!("{:?}", r.result)}));
                continue;
            }
            let ok = r.stack.len() == 2
                && r.stack[0].iter().map(|x| &x.0).eq(bases.iter())
                && r.stack[1].len() == nb
                && r.stack[1].iter().enumerate().all(|(j, (t, _))| {
                    t.len() == dim && (0..dim).all(|i| t[i].to_bits() == bases[j][i].to_bits() || t[i].to_bits() == mutants[j][i].to_bits()) && (0..dim).any(|i| t[i].to_bits() == bases[j][i].to_bits())
                });
            if !ok {
                rep.violation(&format!("{name}:trial-vectors-not-position-wise-from-mutant-and-base"), ctx());
            }
        }
    }
}

fn bit_components(rep: &Reporter, rng: &mut SplitMix64, n: usize) {
    for _ in 0..n {
        let dim = 1 + rng.usize(12);
        let problem = Bits::new(dim, BitFn::OneMax);
        let size = rng.usize(10);
        let pop: Vec<Vec<bool>> = (0..size).map(|_| (0..dim).map(|_| rng.bool()).collect()).collect();
        let rate = *rng.pick(&[0.0, 0.3, 1.0]);
        let p = *rng.pick(&[0.0, 0.5, 1.0]);
        let seed = rng.next_u64();
        let other = if rate == 0.0 { 1.0 } else { 0.0 };
        let under_twin = rng.bool();
        let ops: Vec<(&str, Box<dyn Component<Bits>>, Box<dyn Component<Bits>>)> = vec![
            ("BitFlipMutation", mutation::BitFlipMutation::new(rate), mutation::BitFlipMutation::new(other)),
            ("PartialRandomBitstring", mutation::PartialRandomBitstring::new(p, rate), mutation::PartialRandomBitstring::new(1.0 - p, other)),
            ("ScrambleMutation", mutation::ScrambleMutation::new(rate), mutation::ScrambleMutation::new(other)),
        ];
        for (name, comp, twin) in ops {
            rep.case();
            rep.nontrivial(hash_of(&(name, dim, size, rate.to_bits(), p.to_bits(), under_twin)));
            let r = run_comp_under(&problem, comp.as_ref(), under_twin.then_some(twin.as_ref()), &[pop.clone()], seed, true);
            rep.distinct("operator_outcomes", hash_of(&(name, outcome_class(&r))));
            if under_twin {
                rep.count("runs_inside_a_scope_over_a_twin", 1);
            }
            let ctx = || json!({"operator": name, "rate": rate, "p": p, "dimension": dim, "population_size": size, "seed": seed, "inside_a_scope_over_the_same_operator_with_rate": under_twin.then_some(other)});
            if outcome_class(&r) != "ok" {
                rep.violation(&format!("{name}:{}-on-valid-population", outcome_class(&r)), json!({"case": ctx(), "result": format!("{:?}", r.result)}));
                continue;
            }
            let after: Vec<&Vec<bool>> = r.stack[0].iter().map(|x| &x.0).collect();
            if after.len() != size || after.iter().any(|s| s.len() != dim) {
                rep.violation(&format!("{name}:population-size-or-dimension-changed"), ctx());
                continue;
            }
            if rate == 0.0 && after.iter().zip(&pop).any(|(a, b)| *a != b) {
                rep.violation(&format!("{name}:rate-zero-changes-solutions"), ctx());
            }
            if name == "BitFlipMutation" && rate == 1.0 && after.iter().zip(&pop).any(|(a, b)| a.iter().zip(b).any(|(x, y)| x == y)) {
                rep.violation("BitFlipMutation:rate-one-leaves-a-bit-unflipped", ctx());
            }
            if name == "PartialRandomBitstring" && rate == 1.0 && (p == 0.0 || p == 1.0) && after.iter().any(|a| a.iter().any(|x| *x != (p == 1.0))) {
                rep.violation("PartialRandomBitstring:constant-probability-not-respected", ctx());
            }
            if name == "ScrambleMutation" && after.iter().zip(&pop).any(|(a, b)| a.iter().filter(|x| **x).count() != b.iter().filter(|x| **x).count()) {
                rep.violation("ScrambleMutation:elements-not-conserved", ctx());
            }
        }
    }
}

fn perm_components(rep: &Reporter, rng: &mut SplitMix64, n: usize) {
    for _ in 0..n {
        let dim = 2 + rng.usize(9);
        let problem = Perm::new(dim);
        let size = rng.usize(8);
        let pop: Vec<Vec<usize>> = (0..size).map(|_| { let mut p: Vec<usize> = (0..dim).collect(); rng.shuffle(&mut p); p }).collect();
        let seed = rng.next_u64();
        let ident: Vec<usize> = (0..dim).collect();
        let mut ops: Vec<(String, Box<dyn Component<Perm>>, Option<usize>)> = vec![
            ("InversionMutation".into(), mutation::common::InversionMutation::new::<Perm, usize>(), None),
            ("InsertionMutation".into(), mutation::common::InsertionMutation::new(), None),
            ("TranslocationMutation".into(), mutation::common::TranslocationMutation::new(), None),
            ("ScrambleMutation".into(), mutation::ScrambleMutation::new(1.0), None),
        ];
        // every documented number of swaps: 2 ..= dimension
        for k in [2usize, 3.min(dim), dim - 1, dim] {
            if k < 2 {
                continue;
            }
            match mutation::SwapMutation::new::<Perm>(k as u32) {
                Ok(c) => ops.push((format!("SwapMutation({})", if k == 2 { "2" } else if k == dim { "dimension" } else { "between" }), c, Some(k))),
                Err(e) => rep.violation(&format!("SwapMutation:constructor-rejects-documented-value:{}", if k == 2 { "2" } else { "k>2" }), json!({"num_swap": k, "error": e.to_string()})),
            }
        }
        // more swaps than positions: refused when there is a solution to apply it to - and a refused step leaves the
        // population as it was
        if let Ok(c) = mutation::SwapMutation::new::<Perm>(dim as u32 + 1) {
            rep.case();
            let r = run_comp(&problem, c.as_ref(), &[pop.clone()], seed, true);
            let unchanged = r.stack.len() == 1 && r.stack[0].iter().map(|x| &x.0).eq(pop.iter());
            let refused = matches!(r.result, Ok(Err(_)));
            if matches!(r.result, Err(_)) || (size > 0 && !refused) || (refused && !unchanged) {
                let kind = if refused { "refused-step-changes-or-loses-the-population" } else { "more-swaps-than-positions-not-refused" };
                rep.violation(&format!("SwapMutation:{kind}"), json!({"num_swap": dim + 1, "dimension": dim, "population_size": size, "result": format!("{:?}", r.result), "populations_after": r.stack.len()}));
            }
        }
        for (name, comp, swaps) in ops {
            rep.case();
            rep.nontrivial(hash_of(&(&name, dim, size)));
            let r = run_comp(&problem, comp.as_ref(), &[pop.clone()], seed, true);
            rep.distinct("operator_outcomes", hash_of(&(&name, outcome_class(&r))));
            let ctx = || json!({"operator": name, "dimension": dim, "population_size": size, "seed": seed});
            if outcome_class(&r) != "ok" {
                rep.violation(&format!("{name}:{}-on-valid-population", outcome_class(&r)), json!({"case": ctx(), "result": format!("{:?}", r.result)}));
                continue;
            }
            let after: Vec<&Vec<usize>> = r.stack[0].iter().map(|x| &x.0).collect();
            if after.len() != size || after.iter().any(|s| !is_perm_of(s, &ident)) {
                rep.violation(&format!("{name}:result-not-a-permutation"), json!({"case": ctx(), "after": after}));
                continue;
            }
            if let Some(k) = swaps {
                // a circular swap of k distinct positions changes exactly those k positions
                if after.iter().zip(&pop).any(|(a, b)| a.iter().zip(b).filter(|(x, y)| x != y).count() != k) {
                    rep.violation(&format!("{name}:number-of-changed-positions-differs-from-num_swap"), json!({"case": ctx(), "num_swap": k}));
                }
            }
        }
        // cycle crossover component
        let pc = *rng.pick(&[0.0, 0.5, 1.0]);
        let both = rng.bool();
        rep.case();
        let comp = recombination::CycleCrossover::new::<Perm, usize>(pc, both);
        let r = run_comp(&problem, comp.as_ref(), &[pop.clone()], seed, true);
        rep.distinct("operator_outcomes", hash_of(&("CycleCrossover", outcome_class(&r))));
        if outcome_class(&r) != "ok" {
            rep.violation(&format!("CycleCrossover:{}-on-valid-population", outcome_class(&r)), json!({"pc": pc, "insert_both": both, "dimension": dim, "population_size": size, "result": format!("{:?}", r.result)}));
        } else {
            let after: Vec<&Vec<usize>> = r.stack[0].iter().map(|x| &x.0).collect();
            let pairs = size / 2;
            let rem = size % 2;
            let (lo, hi) = if pc == 0.0 { (2 * pairs + rem, 2 * pairs + rem) } else if pc == 1.0 { let c = if both { 2 } else { 1 }; (c * pairs + rem, c * pairs + rem) } else { (pairs + rem, 2 * pairs + rem) };
            if after.iter().any(|s| !is_perm_of(s, &ident)) || after.len() < lo || after.len() > hi {
                rep.violation("CycleCrossover:offspring-malformed-or-count-wrong", json!({"pc": pc, "insert_both": both, "population_size": size, "offspring": after.len()}));
            }
        }
    }
}

/// The mutation rate a component works with is the one in the state (its constructor only provides the initial value):
/// built with rate 1 and the state then set to 0 nothing may change, built with 0 and set to 1 everything does.
fn rate_from_state(rep: &Reporter, n: usize) {
    use mahf::components::mutation::MutationRate;
    let mut rng = SplitMix64::new(rep.seed).fork(0xC13_5);
    macro_rules! probe {
        ($name:expr, $P:ty, $problem:expr, $pop:expr, $comp:expr, $ty:ty, $built:expr, $changed_all:expr) => {{
            rep.case();
            rep.nontrivial(hash_of(&($name, "rate-from-state", $built.to_bits())));
            let problem = $problem;
            let pop = $pop;
            let comp = $comp;
            let other = 1.0 - $built;
            let mut st = State::<$P>::new();
            let mut pops = Populations::<$P>::new();
            pops.push(pop.clone().into_individuals());
            st.insert(pops);
            st.insert(Random::new(rng.next_u64()));
            let r = catch(|| {
                comp.init(&problem, &mut st).map_err(|e| e.to_string())?;
                st.set_value::<MutationRate<$ty>>(other);
                comp.execute(&problem, &mut st).map_err(|e| e.to_string())
            });
            let after: Vec<_> = st.populations().get_current().map(|c| c.iter().map(|i| i.solution().clone()).collect()).unwrap_or_default();
            let ok = matches!(r, Ok(Ok(())))
                && after.len() == pop.len()
                && if other == 0.0 { after == pop } else { !$changed_all || after.iter().zip(&pop).all(|(a, b)| a.iter().zip(b.iter()).all(|(x, y)| x != y)) };
            if !ok {
                rep.violation(&format!("{}:works-with-the-constructor-rate-instead-of-the-rate-in-the-state", $name), json!({"built_with_rate": $built, "rate_in_the_state": other, "result": format!("{r:?}"), "changed": after != pop}));
            }
        }};
    }
    for _ in 0..n {
        let dim = 2 + rng.usize(6);
        let real = Real::new(dim, -5.0, 5.0, RealFn::Sphere);
        let rpop: Vec<Vec<f64>> = (0..1 + rng.usize(5)).map(|_| (0..dim).map(|_| rng.f64_in(-4.0, 4.0)).collect()).collect();
        let bits = Bits::new(dim, BitFn::OneMax);
        let bpop: Vec<Vec<bool>> = (0..1 + rng.usize(5)).map(|_| (0..dim).map(|_| rng.bool()).collect()).collect();
        for built in [0.0f64, 1.0] {
            probe!("NormalMutation", Real, Real::new(dim, -5.0, 5.0, RealFn::Sphere), rpop.clone(), mutation::NormalMutation::new::<Real>(0.5, built), mutation::NormalMutation, built, true);
            probe!("UniformMutation", Real, Real::new(dim, -5.0, 5.0, RealFn::Sphere), rpop.clone(), mutation::UniformMutation::new::<Real>(0.5, built), mutation::UniformMutation, built, true);
            probe!("PartialRandomSpread", Real, Real::new(dim, -5.0, 5.0, RealFn::Sphere), rpop.clone(), mutation::PartialRandomSpread::new::<Real>(built), mutation::PartialRandomSpread, built, true);
            probe!("BitFlipMutation", Bits, Bits::new(dim, BitFn::OneMax), bpop.clone(), mutation::BitFlipMutation::new::<Bits>(built), mutation::BitFlipMutation, built, true);
            probe!("PartialRandomBitstring", Bits, Bits::new(dim, BitFn::OneMax), bpop.clone(), mutation::PartialRandomBitstring::new::<Bits>(0.5, built), mutation::PartialRandomBitstring, built, false);
        }
        let _ = (&real, &bits);
    }
}

/// Every public constructor of every variation component builds a component that runs on a valid population.
fn constructors(rep: &Reporter) {
    use mahf::identifier::A;
    let real = Real::new(4, -5.0, 5.0, RealFn::Sphere);
    let rpop: Vec<Vec<f64>> = vec![vec![1.0, 2.0, 3.0, 4.0], vec![-1.0, -2.0, -3.0, -4.0], vec![0.5, 0.25, 0.125, 0.0]];
    let rcomps: Vec<(&str, Box<dyn Component<Real>>)> = vec![
        ("NormalMutation::new_dev", mutation::NormalMutation::new_dev(0.1)),
        ("NormalMutation::new_with_id", mutation::NormalMutation::<A>::new_with_id(0.1, 0.5)),
        ("NormalMutation::from_params", Box::new(mutation::NormalMutation::<A>::from_params(0.1, 0.5))),
        ("UniformMutation::new_bound", mutation::UniformMutation::new_bound(0.3)),
        ("UniformMutation::new_with_id", mutation::UniformMutation::<A>::new_with_id(0.3, 0.5)),
        ("PartialRandomSpread::new_full", mutation::PartialRandomSpread::new_full()),
        ("PartialRandomSpread::new_with_id", mutation::PartialRandomSpread::<A>::new_with_id(0.5)),
        ("ScrambleMutation::new_full", mutation::ScrambleMutation::new_full()),
        ("ScrambleMutation::new_with_id", mutation::ScrambleMutation::<A>::new_with_id(0.5)),
        ("NPointCrossover::new_insert_single", recombination::NPointCrossover::new_insert_single(2, 1.0)),
        ("NPointCrossover::new_insert_both", recombination::NPointCrossover::new_insert_both(3, 1.0)),
        ("UniformCrossover::new_insert_single", recombination::UniformCrossover::new_insert_single(1.0)),
        ("UniformCrossover::new_insert_both", recombination::UniformCrossover::new_insert_both(1.0)),
        ("ArithmeticCrossover::new_insert_single", recombination::ArithmeticCrossover::new_insert_single(1.0)),
        ("ArithmeticCrossover::new_insert_both", recombination::ArithmeticCrossover::new_insert_both(1.0)),
    ];
    for (name, c) in rcomps {
        rep.case();
        rep.nontrivial(hash_of(&("ctor", name)));
        let r = run_comp(&real, c.as_ref(), &[rpop.clone()], 11, true);
        let expect = if name.contains("insert_single") { 2 } else { 3 };
        if outcome_class(&r) != "ok" || r.stack.len() != 1 || r.stack[0].len() != expect || r.stack[0].iter().any(|x| x.0.len() != 4) {
            rep.violation(&format!("constructor:{name}:component-does-not-run-or-wrong-shape"), json!({"constructor": name, "result": format!("{:?}", r.result), "individuals_after": r.stack.first().map(|p| p.len())}));
        }
    }
    let bits = Bits::new(5, BitFn::OneMax);
    let bpop: Vec<Vec<bool>> = vec![vec![true, false, true, false, true], vec![false; 5]];
    let bcomps: Vec<(&str, Box<dyn Component<Bits>>)> = vec![
        ("BitFlipMutation::new_with_id", mutation::BitFlipMutation::<A>::new_with_id(0.5)),
        ("PartialRandomBitstring::new_uniform", mutation::PartialRandomBitstring::new_uniform(0.5)),
        ("PartialRandomBitstring::new_full", mutation::PartialRandomBitstring::new_full(0.3)),
        ("PartialRandomBitstring::new_uniform_full", mutation::PartialRandomBitstring::new_uniform_full()),
        ("PartialRandomBitstring::new_with_id", mutation::PartialRandomBitstring::<A>::new_with_id(0.5, 0.5)),
    ];
    for (name, c) in bcomps {
        rep.case();
        rep.nontrivial(hash_of(&("ctor", name)));
        let r = run_comp(&bits, c.as_ref(), &[bpop.clone()], 12, true);
        if outcome_class(&r) != "ok" || r.stack.len() != 1 || r.stack[0].len() != 2 || r.stack[0].iter().any(|x| x.0.len() != 5) {
            rep.violation(&format!("constructor:{name}:component-does-not-run-or-wrong-shape"), json!({"constructor": name, "result": format!("{:?}", r.result)}));
        }
    }
    let perm = Perm::new(5);
    let ppop: Vec<Vec<usize>> = vec![vec![0, 1, 2, 3, 4], vec![4, 3, 2, 1, 0], vec![2, 0, 4, 1, 3]];
    let pcomps: Vec<(&str, Box<dyn Component<Perm>>)> = vec![
        ("CycleCrossover::new_insert_single", recombination::CycleCrossover::new_insert_single(1.0)),
        ("CycleCrossover::new_insert_both", recombination::CycleCrossover::new_insert_both(1.0)),
    ];
    for (name, c) in pcomps {
        rep.case();
        let r = run_comp(&perm, c.as_ref(), &[ppop.clone()], 13, true);
        let expect = if name.contains("insert_single") { 2 } else { 3 };
        if outcome_class(&r) != "ok" || r.stack[0].len() != expect || r.stack[0].iter().any(|x| !is_perm_of(&x.0, &[0, 1, 2, 3, 4])) {
            rep.violation(&format!("constructor:{name}:component-does-not-run-or-wrong-shape"), json!({"constructor": name, "result": format!("{:?}", r.result)}));
        }
    }
}

fn main() {
    let rep = Reporter::from_args("C13");
    constructors(&rep);
    rate_from_state(&rep, rep.tier.pick(200, 20_000));
    rep.rule("functional helpers exhaustively: circular_swap vs circular_swap2 vs a reference shift on identity + 3 shuffled sequences per length 2..7 x every ordered tuple of >=2 distinct indices; translocate_slice vs translocate_slice2 vs a reference on all ranges (incl. empty and ending at len) x all admissible indices; uniform / multi-point crossover on all parent pairs over {0,1,2}^len, len<=4, x all masks / all cut sets in both orders; arithmetic crossover on a value x alpha grid; cycle crossover on all pairs of permutations up to length 5. Components (seeded): every mutation / recombination / DE component on populations of 0..9 individuals, dimension 1..12, rates and probabilities in {0,.3|.5,1}: no panic and no Err on valid input, dimension and elements conserved, rate 0 changes nothing, offspring counts follow insert-one/insert-both/probability, position-wise gene conservation, SwapMutation for 2 <= k <= dimension changes exactly k positions, DEMutation maps n(2y+1) -> n with the documented formula and errs on any other length. distinct_nontrivial = distinct (operator, parameter, shape) cells");
    rep.assume("valid = dimension >= 2 for permutation mutations, n < dimension for n-point crossover, equal parent lengths");
    helpers_permutation(&rep);
    helpers_crossover(&rep);
    let mut rng = SplitMix64::new(rep.seed).fork(0xC13_1);
    let n = rep.tier.pick(3_000, 3_000_000);
    real_components(&rep, &mut rng, n);
    de_components(&rep, &mut rng, n);
    bit_components(&rep, &mut rng, n);
    perm_components(&rep, &mut rng, n);
    rep.sample(json!({"helper": "translocate_slice", "permutation": [0, 1, 2, 3, 4], "range": [3, 5], "index": 0, "expected": [3, 4, 0, 1, 2]}));
    rep.sample(json!({"component": "SwapMutation(dimension)", "dimension": 6, "expected": "Ok, a permutation differing from the input in exactly 6 positions"}));
    let _ = <Real as Problem>::name;
    let _ = <Real as VectorProblem>::dimension;
    rep.exhaustive(true);
    rep.finish();
}
