//! C14 — initialisation and boundary repair keep every coordinate inside the domain.
//! Boundary cases run in worker subprocesses (BEGIN/END markers) so that a repair operator that
//! never returns is detected, attributed to a single coordinate and reported, instead of hanging the check.
use std::{
    io::{BufRead, BufReader},
    process::{Child, Command, Stdio},
    sync::mpsc,
    time::{Duration, Instant},
};

use mahf::{
    components::{boundary, initialization},
    population::IntoIndividuals,
    state::{common::Populations, Random},
    Component, Individual, State,
};
use mv::{catch, hash_of, num_workers, problems::*, Reporter, SplitMix64};
use serde_json::{json, Value};

const OPS: [&str; 4] = ["Saturation", "Toroidal", "Mirror", "CompleteOneTailedNormalCorrection"];
const DOMAINS: [(f64, f64); 6] = [(-1.0, 1.0), (0.0, 10.0), (-5.12, 5.12), (-3.0, 7.0), (1.0e6, 1.0e6 + 1.0), (1.0e-3, 1.0e3)];
const BATCH: usize = 250;

fn op_component(op: &str) -> Box<dyn Component<Real>> {
    match op {
        "Saturation" => boundary::Saturation::new(),
        "Toroidal" => boundary::Toroidal::new(),
        "Mirror" => boundary::Mirror::new(),
        _ => boundary::CompleteOneTailedNormalCorrection::new(),
    }
}

fn next_up(x: f64) -> f64 {
    if x == 0.0 {
        return f64::from_bits(1);
    }
    let b = x.to_bits();
    f64::from_bits(if x > 0.0 { b + 1 } else { b - 1 })
}
fn next_down(x: f64) -> f64 {
    -next_up(-x)
}

fn coordinates(a: f64, b: f64, rng: &mut SplitMix64, n_random: usize) -> Vec<f64> {
    let w = b - a;
    let mut v = vec![a, b, next_up(a), next_down(a), next_up(b), next_down(b), (a + b) / 2.0, a + w / 3.0, next_down(next_down(b)), next_up(next_up(a))];
    for k in [0.5, 1.0, 1.5, 2.0, 2.5, 10.0, 10.5, 1.0e3, 1.0e6, 1.0e6 + 0.5] {
        v.push(a - k * w);
        v.push(b + k * w);
    }
    for e in [1.0e12, 1.0e18, 1.0e100, 1.0e300, f64::MAX] {
        v.push(e);
        v.push(-e);
    }
    for i in 0..n_random {
        let x = match i % 10 {
            0..=5 => rng.f64_in(a - 3.0 * w, b + 3.0 * w),
            6 | 7 => rng.f64_in(a, b),
            8 => rng.f64_in(a - 1.0e4 * w, b + 1.0e4 * w),
            _ => {
                // random finite bit pattern
                loop {
                    let x = f64::from_bits(rng.next_u64());
                    if x.is_finite() {
                        break x;
                    }
                }
            }
        };
        v.push(x);
    }
    v
}

fn x_class(x: f64, a: f64, b: f64) -> &'static str {
    let w = b - a;
    if x == b {
        "x==upper-bound"
    } else if x == a {
        "x==lower-bound"
    } else if x > a && x < b {
        "inside"
    } else if (x - b).abs() > 1.0e5 * w && x > b || (a - x).abs() > 1.0e5 * w && x < a {
        "far-outside"
    } else if x > b {
        "above"
    } else {
        "below"
    }
}

#[derive(Clone)]
struct Batch {
    id: usize,
    op: &'static str,
    domain: (f64, f64),
    seed: u64,
    xs: Vec<f64>,
}

fn batches(tier_quick: bool, seed: u64) -> Vec<Batch> {
    let mut rng = SplitMix64::new(seed).fork(0xC14);
    let n_random = if tier_quick { 3_000 } else { 400_000 };
    let mut out = Vec::new();
    for op in OPS {
        for &(a, b) in &DOMAINS {
            let xs = coordinates(a, b, &mut rng, n_random);
            let seeds: u64 = if op == "CompleteOneTailedNormalCorrection" { if tier_quick { 4 } else { 256 } } else { 1 };
            for s in 0..seeds {
                let xs = if s == 0 { xs.clone() } else { xs.iter().cloned().take(60 + 200).collect() };
                for chunk in xs.chunks(BATCH) {
                    out.push(Batch { id: out.len(), op, domain: (a, b), seed: seed.wrapping_add(s * 7919), xs: chunk.to_vec() });
                }
            }
        }
    }
    out
}

/// Runs the operator once on a solution made of `xs` (one coordinate per dimension, all with the same
/// domain) and then a second time on its own output; returns violations.
fn run_batch(b: &Batch, only: Option<usize>) -> (Vec<Value>, u64, Vec<u64>) {
    // one component object per operator for the whole worker process: it is used on problem after problem with
    // different domains and dimensions, and must repair against the problem at hand every time
    static COMPONENTS: std::sync::OnceLock<std::sync::Mutex<std::collections::HashMap<&'static str, Box<dyn Component<Real>>>>> = std::sync::OnceLock::new();
    let comp = COMPONENTS.get_or_init(Default::default).lock().unwrap().remove(b.op).unwrap_or_else(|| op_component(b.op));
    let out = run_batch_with(comp.as_ref(), b, only);
    COMPONENTS.get_or_init(Default::default).lock().unwrap().insert(b.op, comp);
    out
}

fn run_batch_with(comp: &dyn Component<Real>, b: &Batch, only: Option<usize>) -> (Vec<Value>, u64, Vec<u64>) {
    let xs: Vec<f64> = match only {
        Some(j) => vec![b.xs[j]],
        None => b.xs.clone(),
    };
    let (a, hi) = b.domain;
    let problem = Real::with_domains(vec![b.domain; xs.len()], RealFn::Sphere);
    let mut st = State::<Real>::new();
    let mut pops = Populations::<Real>::new();
    // by batch: the solution alone on the stack / on top of another population holding a copy of it (which the
    // operator must not touch) x not yet evaluated / already evaluated (a repair is due either way)
    let beneath = b.id % 2 == 1;
    let evaluated = (b.id / 2) % 2 == 1;
    if beneath {
        pops.push(vec![xs.clone()].into_individuals());
    }
    pops.push(if evaluated { vec![Individual::new(xs.clone(), problem.f_pure(&xs).try_into().unwrap())] } else { vec![xs.clone()].into_individuals() });
    st.insert(pops);
    st.insert(Random::new(b.seed));
    let mut viol = Vec::new();
    let mut nontrivial = Vec::new();
    let r1 = catch(|| comp.execute(&problem, &mut st).map_err(|e| format!("{e:#}")));
    if !matches!(r1, Ok(Ok(()))) {
        viol.push(json!({"sig": format!("{}:fails-on-finite-solution", b.op), "detail": {"operator": b.op, "domain": [a, hi], "result": format!("{r1:?}")}}));
        return (viol, xs.len() as u64, nontrivial);
    }
    {
        let pops = st.populations();
        let expect_height = if beneath { 2 } else { 1 };
        if pops.len() != expect_height || pops.current().len() != 1 {
            viol.push(json!({"sig": format!("{}:changes-the-population-stack", b.op), "detail": {"operator": b.op, "stack_height": pops.len(), "expected": expect_height}}));
            return (viol, xs.len() as u64, nontrivial);
        }
        if beneath && pops.peek(1)[0].solution().iter().zip(&xs).any(|(p, q)| p.to_bits() != q.to_bits()) {
            viol.push(json!({"sig": format!("{}:touches-a-population-beneath-the-current-one", b.op), "detail": {"operator": b.op, "domain": [a, hi], "seed": b.seed}}));
        }
    }
    let ys: Vec<f64> = st.populations().current()[0].solution().clone();
    let _ = catch(|| comp.execute(&problem, &mut st).map_err(|e| format!("{e:#}")));
    let zs: Vec<f64> = st.populations().current()[0].solution().clone();
    let tau = 4.0 * f64::EPSILON * a.abs().max(hi.abs()).max(hi - a);
    for (i, &x) in xs.iter().enumerate() {
        let (y, z) = (ys[i], zs[i]);
        let cls = x_class(x, a, hi);
        if cls != "inside" {
            nontrivial.push(hash_of(&(b.op, a.to_bits(), x.to_bits())));
        }
        let case = || json!({"operator": b.op, "domain": [a, hi], "x": format!("{x:e}"), "result": format!("{y:e}"), "second_application": format!("{z:e}"), "seed": b.seed, "another_population_beneath": beneath, "individual_was_evaluated": evaluated});
        if !(y >= a - tau && y <= hi + tau) {
            viol.push(json!({"sig": format!("{}:result-outside-domain:{cls}", b.op), "detail": case()}));
        } else if x >= a && x <= hi && y.to_bits() != x.to_bits() {
            viol.push(json!({"sig": format!("{}:changes-a-coordinate-that-was-inside:{cls}", b.op), "detail": case()}));
        } else if y >= a && y <= hi && z.to_bits() != y.to_bits() {
            viol.push(json!({"sig": format!("{}:not-idempotent:{cls}", b.op), "detail": case()}));
        }
    }
    (viol, xs.len() as u64, nontrivial)
}

fn worker(args: &[String]) {
    let get = |k: &str| args.iter().position(|a| a == k).and_then(|i| args.get(i + 1)).cloned();
    let quick = get("--tier").as_deref() != Some("thorough");
    let seed: u64 = get("--seed").and_then(|s| s.parse::<i64>().ok()).unwrap_or(1) as u64;
    let all = batches(quick, seed);
    if let Some(single) = get("--single") {
        let id: usize = single.parse().unwrap();
        let j: usize = get("--coord").unwrap().parse().unwrap();
        println!("BEGIN {id}");
        let (viol, n, _) = run_batch(&all[id], Some(j));
        for v in viol {
            println!("VIOL {v}");
        }
        println!("END {id} {n} 0");
        return;
    }
    let shard: usize = get("--shard").unwrap().parse().unwrap();
    let shards: usize = get("--shards").unwrap().parse().unwrap();
    let from: usize = get("--from").and_then(|s| s.parse().ok()).unwrap_or(0);
    for b in all.iter().filter(|b| b.id % shards == shard && b.id >= from) {
        println!("BEGIN {}", b.id);
        let (viol, n, nt) = run_batch(b, None);
        for v in viol {
            println!("VIOL {v}");
        }
        println!("NT {}", nt.iter().map(|h| h.to_string()).collect::<Vec<_>>().join(","));
        println!("END {} {n} {}", b.id, nt.len());
    }
    println!("DONE");
}

struct Kid {
    child: Child,
    shard: usize,
    open: Option<usize>,
    last: Instant,
    done: bool,
    stage2: bool,
}

fn spawn(exe: &std::path::Path, extra: &[String], tx: &mpsc::Sender<(usize, String)>, tag: usize) -> Child {
    let mut child = Command::new(exe).args(extra).stdout(Stdio::piped()).stderr(Stdio::null()).spawn().expect("spawn worker");
    let out = child.stdout.take().unwrap();
    let tx = tx.clone();
    std::thread::spawn(move || {
        for line in BufReader::new(out).lines().map_while(Result::ok) {
            if tx.send((tag, line)).is_err() {
                break;
            }
        }
        let _ = tx.send((tag, "EOF".into()));
    });
    child
}

fn boundary(rep: &Reporter) {
    let exe = std::env::current_exe().unwrap();
    let all = batches(rep.quick(), rep.seed);
    let shards = num_workers().min(all.len().max(1));
    let (tx, rx) = mpsc::channel::<(usize, String)>();
    let base = |shard: usize, from: usize| -> Vec<String> {
        vec!["--worker".into(), "--tier".into(), rep.tier.name().into(), "--seed".into(), (rep.seed as i64).to_string(), "--shard".into(), shard.to_string(), "--shards".into(), shards.to_string(), "--from".into(), from.to_string()]
    };
    let mut kids: Vec<Kid> = (0..shards).map(|s| Kid { child: spawn(&exe, &base(s, 0), &tx, s), shard: s, open: None, last: Instant::now(), done: false, stage2: false }).collect();
    let silence = Duration::from_secs(20);
    let single_budget = Duration::from_secs(120);
    let mut batches_done = 0u64;
    while kids.iter().any(|k| !k.done) {
        match rx.recv_timeout(Duration::from_millis(500)) {
            Ok((tag, line)) => {
                let k = &mut kids[tag];
                k.last = Instant::now();
                if let Some(rest) = line.strip_prefix("BEGIN ") {
                    k.open = rest.trim().parse().ok();
                } else if let Some(rest) = line.strip_prefix("END ") {
                    let parts: Vec<&str> = rest.split_whitespace().collect();
                    rep.cases(parts.get(1).and_then(|s| s.parse().ok()).unwrap_or(0));
                    k.open = None;
                    batches_done += 1;
                } else if let Some(rest) = line.strip_prefix("NT ") {
                    for h in rest.split(',').filter_map(|s| s.parse::<u64>().ok()) {
                        rep.nontrivial(h);
                    }
                } else if let Some(rest) = line.strip_prefix("VIOL ") {
                    if let Ok(v) = serde_json::from_str::<Value>(rest) {
                        rep.violation(v["sig"].as_str().unwrap_or("?"), v["detail"].clone());
                    }
                } else if line == "CASE1" {
                    rep.case();
                } else if let Some(rest) = line.strip_prefix("STAGE2 ") {
                    let parts: Vec<&str> = rest.split_whitespace().collect();
                    let id: usize = parts[0].parse().unwrap_or(0);
                    if parts.get(1) == Some(&"0") {
                        // slow machine, not a hang: every coordinate of the batch returned (and was judged) alone
                        rep.count("silent_batches_whose_coordinates_all_returned_alone", 1);
                        batches_done += 1;
                    }
                    let shard = k.shard;
                    k.stage2 = false;
                    k.last = Instant::now();
                    k.child = spawn(&exe, &base(shard, id + shards), &tx, tag);
                } else if line == "DONE" {
                    k.done = true;
                } else if line == "EOF" && !k.done && !k.stage2 {
                    // died without finishing: a crash inside a batch
                    if let Some(id) = k.open {
                        rep.violation(&format!("{}:worker-died", all[id].op), json!({"batch": id, "operator": all[id].op, "domain": [all[id].domain.0, all[id].domain.1]}));
                        let from = id + shards;
                        k.open = None;
                        k.child = spawn(&exe, &base(k.shard, from), &tx, tag);
                    } else {
                        k.done = true;
                    }
                }
            }
            Err(mpsc::RecvTimeoutError::Timeout) => {}
            Err(_) => break,
        }
        for tag in 0..kids.len() {
            let (stuck, id) = {
                let k = &kids[tag];
                (!k.done && !k.stage2 && k.open.is_some() && k.last.elapsed() > silence, k.open)
            };
            if !stuck {
                continue;
            }
            let id = id.unwrap();
            let _ = kids[tag].child.kill();
            let _ = kids[tag].child.wait();
            rep.count("batches_that_went_silent", 1);
            // stage two (own thread, so that other shards keep being served): every coordinate of the
            // batch alone in a fresh process, with a generous budget
            kids[tag].open = None;
            kids[tag].stage2 = true;
            kids[tag].last = Instant::now();
            let b = all[id].clone();
            let exe2 = exe.clone();
            let tx2 = tx.clone();
            let tier = rep.tier.name().to_string();
            let seed_s = (rep.seed as i64).to_string();
            std::thread::spawn(move || {
                let mut found = false;
                for j in 0..b.xs.len() {
                    let mut c = Command::new(&exe2)
                        .args(["--worker", "--tier", &tier, "--seed", &seed_s, "--single", &id.to_string(), "--coord", &j.to_string()])
                        .stdout(Stdio::piped())
                        .stderr(Stdio::null())
                        .spawn()
                        .expect("spawn single");
                    let t0 = Instant::now();
                    let finished = loop {
                        match c.try_wait() {
                            Ok(Some(_)) => break true,
                            Ok(None) if t0.elapsed() > single_budget => break false,
                            Ok(None) => std::thread::sleep(Duration::from_millis(2)),
                            Err(_) => break true,
                        }
                    };
                    let _ = tx2.send((tag, "CASE1".into()));
                    if !finished {
                        let _ = c.kill();
                        let _ = c.wait();
                        let x = b.xs[j];
                        let v = json!({"sig": format!("{}:does-not-return:{}", b.op, x_class(x, b.domain.0, b.domain.1)),
                            "detail": {"operator": b.op, "domain": [b.domain.0, b.domain.1], "x": format!("{x:e}"), "x_bits": format!("{:016x}", x.to_bits()), "seed": b.seed, "waited_s": single_budget.as_secs(), "note": "the single coordinate was re-run alone in a fresh process and did not return"}});
                        let _ = tx2.send((tag, format!("VIOL {v}")));
                        found = true;
                        break;
                    } else if let Some(out) = c.stdout.take() {
                        for line in BufReader::new(out).lines().map_while(Result::ok) {
                            if line.starts_with("VIOL ") {
                                let _ = tx2.send((tag, line));
                            }
                        }
                    }
                }
                let _ = tx2.send((tag, format!("STAGE2 {} {}", id, if found { 1 } else { 0 })));
            });
        }
    }
    for k in kids.iter_mut() {
        let _ = k.child.wait();
    }
    rep.count("boundary_batches", batches_done);
    rep.set("boundary_batches_planned", json!(all.len()));
    if (batches_done as usize) < all.len() && rep.violation_count() == 0 {
        rep.inconclusive("not all boundary batches completed");
    }
}

// ---- initialisation (in-process) -----------------------------------------------------------------------
fn initial(rep: &Reporter) {
    let mut rng = SplitMix64::new(rep.seed).fork(0xC14_1);
    let sizes = [0u32, 1, 2, 7, 50];
    for &n in &sizes {
        for dim in 0..=6usize {
            for s in 0..rep.tier.pick(3u64, 200u64) {
                let seed = rng.next_u64() ^ s;
                // pre-existing population must stay untouched below the new one
                let prior: Vec<Vec<f64>> = vec![vec![0.25; dim]];
                let check_stack = |name: &str, st_len: usize, top_len: usize, evaluated_any: bool| {
                    if st_len != 2 || top_len != n as usize || evaluated_any {
                        rep.violation(&format!("{name}:wrong-number-of-individuals-or-populations-or-evaluated"), json!({"requested": n, "dimension": dim, "stack_height": st_len, "created": top_len, "some_evaluated": evaluated_any}));
                        false
                    } else {
                        true
                    }
                };
                // real
                for &(a, b) in &DOMAINS {
                    rep.case();
                    rep.nontrivial(hash_of(&("RandomSpread", n, dim, a.to_bits(), s)));
                    let problem = Real::new(dim, a, b, RealFn::Sphere);
                    let mut st = State::<Real>::new();
                    let mut pops = Populations::<Real>::new();
                    pops.push(prior.clone().into_individuals());
                    st.insert(pops);
                    st.insert(Random::new(seed));
                    let r = catch(|| initialization::RandomSpread::new::<Real, f64>(n).execute(&problem, &mut st).map_err(|e| e.to_string()));
                    if !matches!(r, Ok(Ok(()))) {
                        rep.violation("RandomSpread:fails", json!({"requested": n, "dimension": dim, "domain": [a, b], "result": format!("{r:?}")}));
                        continue;
                    }
                    let pops = st.populations();
                    let cur: &[Individual<Real>] = pops.current();
                    if !check_stack("RandomSpread", pops.len(), cur.len(), cur.iter().any(|i| i.is_evaluated())) {
                        continue;
                    }
                    if pops.peek(1)[0].solution() != &prior[0] {
                        rep.violation("RandomSpread:existing-population-touched", json!({"requested": n}));
                    }
                    for i in cur {
                        if i.solution().len() != dim || i.solution().iter().any(|x| !(*x >= a && *x < b)) {
                            rep.violation("RandomSpread:coordinate-outside-domain-or-wrong-dimension", json!({"domain": [a, b], "dimension": dim, "solution": i.solution()}));
                        }
                    }
                }
                // every axis with its own bounds (same lower bound and different upper bounds, nested and disjoint
                // intervals): each coordinate inside the bounds of ITS axis
                if dim >= 2 {
                    let families: [&[(f64, f64)]; 5] = [
                        &[(-5.0, 5.0), (-5.0, 5.0), (0.0, 6.25), (100.0, 200.0), (100.0, 200.0), (0.0, 1.0)],
                        &[(0.0, 100.0), (0.0, 1.0), (0.0, 0.25), (0.0, 7.0), (0.0, 1e-6), (0.0, 3.0)],
                        &[(-1.0, 1.0), (-0.5, 0.5), (5.0, 6.0), (-1e3, -999.0), (0.0, 1e9), (2.0, 2.5)],
                        &[(1.0, 2.0), (1.0, 1.5), (1.0, 1.25), (1.0, 1.125), (1.0, 9.0), (1.0, 1.0625)],
                        &[(-10.0, 0.0), (-1.0, 0.0), (-0.1, 0.0), (-100.0, 0.0), (-2.0, 0.0), (-0.5, 0.0)],
                    ];
                    for fam in families {
                        rep.case();
                        rep.nontrivial(hash_of(&("RandomSpread-heterogeneous", n, dim, s, fam[0].0.to_bits())));
                        let domains: Vec<(f64, f64)> = fam[..dim].to_vec();
                        let problem = Real::with_domains(domains.clone(), RealFn::Sphere);
                        let mut st = State::<Real>::new();
                        st.insert(Populations::<Real>::new());
                        st.insert(Random::new(seed));
                        let r = catch(|| initialization::RandomSpread::new::<Real, f64>(n).execute(&problem, &mut st).map_err(|e| e.to_string()));
                        let ok = matches!(r, Ok(Ok(())))
                            && st.populations().len() == 1
                            && st.populations().get_current().map(|c| c.len() == n as usize && c.iter().all(|i| i.solution().len() == dim && i.solution().iter().zip(&domains).all(|(x, d)| *x >= d.0 && *x < d.1))).unwrap_or(false);
                        if !ok {
                            let bad: Option<Vec<f64>> = st.populations().get_current().and_then(|c| c.iter().find(|i| i.solution().iter().zip(&domains).any(|(x, d)| !(*x >= d.0 && *x < d.1))).map(|i| i.solution().clone()));
                            rep.violation("RandomSpread:coordinate-outside-the-bounds-of-its-own-axis", json!({"requested": n, "domains": domains, "result": format!("{r:?}"), "offending_solution": bad}));
                        }
                    }
                }
                // inside a scope that brings its own population stack (shadowing the caller's): the new population
                // belongs to the innermost stack, the caller's is not touched
                macro_rules! scoped {
                    ($name:expr, $P:ty, $problem:expr, $comp:expr, $marker:expr) => {{
                        rep.case();
                        rep.nontrivial(hash_of(&($name, "scoped", n, dim, s)));
                        let problem = $problem;
                        let mut outer = State::<$P>::new();
                        let mut op = Populations::<$P>::new();
                        op.push(vec![$marker].into_individuals());
                        outer.insert(op);
                        outer.insert(Random::new(seed));
                        let mut seen = None;
                        let r = catch(|| {
                            outer
                                .with_inner_state(|inner| {
                                    inner.insert(Populations::<$P>::new());
                                    $comp.execute(&problem, inner)?;
                                    let p = inner.populations();
                                    seen = Some((p.len(), p.get_current().map(|c| c.len())));
                                    Ok(())
                                })
                                .map(|_| ())
                                .map_err(|e| e.to_string())
                        });
                        let outer_ok = {
                            let p = outer.populations();
                            p.len() == 1 && p.current().len() == 1 && *p.current()[0].solution() == $marker
                        };
                        if !matches!(r, Ok(Ok(()))) || seen != Some((1, Some(n as usize))) || !outer_ok {
                            rep.violation(&format!("{}:inside-a-scope-with-its-own-population-stack:wrong-stack-or-count", $name), json!({"requested": n, "dimension": dim, "result": format!("{r:?}"), "innermost_stack (height, size of the new population)": format!("{seen:?}"), "callers_stack_untouched": outer_ok}));
                        }
                    }};
                }
                scoped!("RandomSpread", Real, Real::new(dim, -1.0, 1.0, RealFn::Sphere), initialization::RandomSpread::new::<Real, f64>(n), vec![9.0; dim]);
                scoped!("RandomPermutation", Perm, Perm::new(dim), initialization::RandomPermutation::new::<Perm>(n), (0..dim).rev().collect::<Vec<usize>>());
                // permutation
                {
                    rep.case();
                    rep.nontrivial(hash_of(&("RandomPermutation", n, dim, s)));
                    let problem = Perm::new(dim);
                    let mut st = State::<Perm>::new();
                    let mut pops = Populations::<Perm>::new();
                    pops.push(vec![(0..dim).collect::<Vec<usize>>()].into_individuals());
                    st.insert(pops);
                    st.insert(Random::new(seed));
                    let r = catch(|| initialization::RandomPermutation::new::<Perm>(n).execute(&problem, &mut st).map_err(|e| e.to_string()));
                    if !matches!(r, Ok(Ok(()))) {
                        rep.violation("RandomPermutation:fails", json!({"requested": n, "dimension": dim, "result": format!("{r:?}")}));
                    } else {
                        let pops = st.populations();
                        let cur = pops.current();
                        if check_stack("RandomPermutation", pops.len(), cur.len(), cur.iter().any(|i| i.is_evaluated())) {
                            for i in cur {
                                let mut p = i.solution().clone();
                                p.sort();
                                if p != (0..dim).collect::<Vec<_>>() {
                                    rep.violation("RandomPermutation:not-a-permutation-of-all-positions", json!({"dimension": dim, "solution": i.solution()}));
                                }
                            }
                        }
                    }
                }
                // bit strings
                for &p in &[0.0f64, 0.5, 1.0] {
                    rep.case();
                    rep.nontrivial(hash_of(&("RandomBitstring", n, dim, p.to_bits() as u64, s)));
                    let problem = Bits::new(dim, BitFn::OneMax);
                    let mut st = State::<Bits>::new();
                    let mut pops = Populations::<Bits>::new();
                    pops.push(vec![vec![true; dim]].into_individuals());
                    st.insert(pops);
                    st.insert(Random::new(seed));
                    let r = catch(|| initialization::RandomBitstring::new::<Bits>(n, p).execute(&problem, &mut st).map_err(|e| e.to_string()));
                    if !matches!(r, Ok(Ok(()))) {
                        rep.violation("RandomBitstring:fails", json!({"requested": n, "dimension": dim, "p": p, "result": format!("{r:?}")}));
                    } else {
                        let pops = st.populations();
                        let cur = pops.current();
                        if check_stack("RandomBitstring", pops.len(), cur.len(), cur.iter().any(|i| i.is_evaluated())) {
                            for i in cur {
                                if i.solution().len() != dim || (p == 0.0 && i.solution().iter().any(|b| *b)) || (p == 1.0 && i.solution().iter().any(|b| !*b)) {
                                    rep.violation("RandomBitstring:wrong-dimension-or-constant-probability-not-respected", json!({"dimension": dim, "p": p}));
                                }
                            }
                        }
                    }
                }
            }
        }
    }
    // Empty
    rep.case();
    let mut st = State::<Real>::new();
    st.insert(Populations::<Real>::new());
    let _ = initialization::Empty::new::<Real>().execute(&Real::new(2, 0.0, 1.0, RealFn::Sphere), &mut st);
    if st.populations().len() != 1 || !st.populations().current().is_empty() {
        rep.violation("Empty:does-not-push-one-empty-population", json!({}));
    }
}

fn main() {
    let args: Vec<String> = std::env::args().collect();
    if args.iter().any(|a| a == "--worker") {
        worker(&args);
        return;
    }
    let rep = Reporter::from_args("C14");
    rep.rule("[repair batches alternate: solution alone / above an identical population that must stay untouched x unevaluated / evaluated individual; initialisation also inside a scope with its own population stack] initialisation: RandomSpread / RandomPermutation / RandomBitstring / Empty for sizes {0,1,2,7,50} x dimensions 0..6 x six domains x seeds on a stack that already holds a population: exactly n unevaluated individuals of the problem's dimension in ONE new population, existing population untouched, reals in [a,b), permutations of all positions, p=0/1 constant. Boundary repair: each of the four operators applied (as a component, in worker subprocesses with BEGIN/END markers; a batch silent for 20 s is re-run coordinate by coordinate with 120 s each) to every coordinate of a grid around six domains - the bounds, their floating-point neighbours, a-k*w and b+k*w for k in {.5,1,1.5,2,2.5,10,10.5,1e3,1e6}, +-{1e12,1e18,1e100,1e300,MAX}, and random finite values incl. random bit patterns; the resampling operator over several seeds: returns, result within [a-tau,b+tau] (tau = 4 ulp of the largest magnitude involved), a coordinate inside [a,b] is returned bit-identical, a second application changes nothing when the first result lies in [a,b]. distinct_nontrivial = distinct (operator, domain, coordinate) with the coordinate not strictly inside, plus distinct initialisation cells");
    rep.assume("the only wall-clock verdict is the two-stage hang rule; the slowest legitimate case takes well under 10 ms");
    initial(&rep);
    boundary(&rep);
    rep.sample(json!({"operator": "Mirror", "domain": [-1.0, 1.0], "x": "1e0 (the upper bound itself)", "expected": "returns 1.0 unchanged"}));
    rep.sample(json!({"operator": "Toroidal", "domain": [0.0, 10.0], "x": "-2.5e1", "expected": "a value within [0,10]"}));
    rep.finish();
}
