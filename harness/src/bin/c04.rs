//! C04 — population stack is a faithful LIFO stack (history + model, tagged individuals).
use mahf::{
    components::utils::populations::{
        ClearPopulation, DuplicatePopulation, InterleavePopulations, RotatePopulations,
        SplitPopulationByObjectiveValue,
    },
    state::common::Populations,
    Component, Individual, State,
};
use mv::{
    catch, hash_of, num_workers,
    problems::{tagged, TagP},
    report::Local,
    Reporter, SplitMix64,
};
use serde_json::json;

type Tag = (u32, Option<u64>); // tag, objective bits
type Model = Vec<Vec<Tag>>; // bottom .. top

#[derive(Clone, Copy, Debug, PartialEq, Eq, Hash)]
enum Op {
    Push(u8),
    Pop,
    TryPop,
    Rotate(u8),
    EditPush,     // current_mut().push(new individual)
    EditTruncate, // get_current_mut() -> truncate(1)
    EditObjective, // set objective of first individual of top via current_mut
    /// current_mut().clone_from(&other population): overwrites the individuals that are there (evaluated and not)
    /// in place; afterwards the top population is an exact copy of the source
    EditCloneFrom,
}

fn alphabet(max_rot: u8) -> Vec<Op> {
    let mut v = vec![Op::Push(0), Op::Push(1), Op::Push(2), Op::Pop, Op::TryPop, Op::EditPush, Op::EditTruncate, Op::EditObjective, Op::EditCloneFrom];
    for n in 0..=max_rot {
        v.push(Op::Rotate(n));
    }
    v
}

fn tag_of(i: &Individual<TagP>) -> Tag {
    (*i.solution(), i.get_objective().map(|o| o.value().to_bits()))
}

fn view(p: &[Individual<TagP>]) -> Vec<Tag> {
    p.iter().map(tag_of).collect()
}

fn mk(t: Tag) -> Individual<TagP> {
    tagged(t.0, t.1.map(f64::from_bits))
}

struct Run {
    real: Populations<TagP>,
    model: Model,
    next_tag: u32,
    /// Some(true) = the top of the window moves to its bottom (rotate right), Some(false) = other way.
    direction: Option<bool>,
}

fn rot_candidates(m: &Model, n: usize) -> (Model, Model) {
    let len = m.len();
    let mut right = m.clone();
    let mut left = m.clone();
    if n >= 2 {
        right[len - n..].rotate_right(1);
        left[len - n..].rotate_left(1);
    }
    (right, left)
}

/// Full sweep: every accessor against the model. Returns a description of the first mismatch.
fn sweep(r: &Run) -> Option<String> {
    let real = &r.real;
    let m = &r.model;
    if real.len() != m.len() {
        return Some(format!("len() = {} but model height {}", real.len(), m.len()));
    }
    if real.is_empty() != m.is_empty() {
        return Some("is_empty() disagrees with the model".into());
    }
    for d in 0..m.len() + 2 {
        let got = match catch(|| real.try_peek(d).map(view)) {
            Ok(g) => g,
            Err(p) => return Some(format!("try_peek({d}) panicked: {p}")),
        };
        let want = if d < m.len() { Some(m[m.len() - 1 - d].clone()) } else { None };
        if got != want {
            return Some(format!("try_peek({d}) = {got:?}, model {want:?}"));
        }
        if d < m.len() {
            match catch(|| view(real.peek(d))) {
                Ok(g) if Some(&g) == want.as_ref() => {}
                Ok(g) => return Some(format!("peek({d}) = {g:?}, model {want:?}")),
                Err(p) => return Some(format!("peek({d}) panicked on a deep-enough stack: {p}")),
            }
        }
    }
    // absurd depths are "too shallow" like any other
    for d in [usize::MAX, usize::MAX - 1, m.len() + 1_000_000] {
        match catch(|| real.try_peek(d).map(view)) {
            Ok(None) => {}
            Ok(Some(g)) => return Some(format!("try_peek({d}) = {g:?} on a stack of height {}", m.len())),
            Err(p) => return Some(format!("try_peek({d}) panicked: {p}")),
        }
    }
    let want = m.last().cloned();
    match catch(|| real.get_current().map(view)) {
        Ok(g) if g == want => {}
        Ok(g) => return Some(format!("get_current() = {g:?}, model {want:?}")),
        Err(p) => return Some(format!("get_current() panicked: {p}")),
    }
    if let Some(w) = &want {
        match catch(|| view(real.current())) {
            Ok(g) if &g == w => {}
            Ok(g) => return Some(format!("current() = {g:?}, model {w:?}")),
            Err(p) => return Some(format!("current() panicked on a non-empty stack: {p}")),
        }
    }
    None
}

/// Applies one op to real and model; `Err((signature, message))` on a violation.
fn step(r: &mut Run, op: Op) -> Result<bool, (String, String)> {
    // returns Ok(nontrivial?)
    let height = r.model.len();
    match op {
        Op::Push(k) => {
            let pop: Vec<Tag> = (0..k)
                .map(|j| {
                    r.next_tag += 1;
                    (r.next_tag, if j % 2 == 0 { Some((r.next_tag as f64).to_bits()) } else { None })
                })
                .collect();
            r.real.push(pop.iter().map(|t| mk(*t)).collect());
            r.model.push(pop);
            Ok(true)
        }
        Op::Pop => {
            let got = catch(|| view(&r.real.pop()));
            match (got, r.model.pop()) {
                (Ok(g), Some(w)) if g == w => Ok(true),
                (Ok(g), Some(w)) => Err(("pop:wrong-population".into(), format!("pop() = {g:?}, model {w:?}"))),
                (Ok(g), None) => Err(("pop:invented".into(), format!("pop() on an empty stack returned {g:?}"))),
                (Err(p), Some(_)) => Err(("pop:panic-nonempty".into(), format!("pop() panicked on a non-empty stack: {p}"))),
                (Err(_), None) => Ok(false), // documented panic
            }
        }
        Op::TryPop => {
            let got = catch(|| r.real.try_pop().map(|p| view(&p)));
            let want = r.model.pop();
            match got {
                Ok(g) if g == want => Ok(height > 0),
                Ok(g) => Err(("try_pop:wrong".into(), format!("try_pop() = {g:?}, model {want:?}"))),
                Err(p) => Err((
                    format!("try_pop:panic:{}", if height == 0 { "empty" } else { "nonempty" }),
                    format!("try_pop() panicked (height {height}): {p}"),
                )),
            }
        }
        Op::Rotate(n) => {
            let n = n as usize;
            if n > height {
                // documented panic region: whatever happens, a refused rotation must not have changed the stack
                let before = r.model.clone();
                let res = catch(|| r.real.rotate(n));
                let now = resync(&r.real);
                r.model = now.clone();
                if res.is_err() && now != before {
                    return Err(("rotate:refused-but-the-stack-changed".into(), format!("rotate({n}) at height {height} panicked and left {now:?} (before: {before:?})")));
                }
                return Ok(false);
            }
            let before = r.model.clone();
            if let Err(p) = catch(|| r.real.rotate(n)) {
                let class = if n == height { "n=height" } else if n == 0 { "n=0" } else { "n<height" };
                // resynchronise the model with whatever the real stack holds now
                r.model = resync(&r.real);
                return Err((format!("rotate:panic:{class}"), format!("rotate({n}) panicked at height {height}: {p}")));
            }
            let now = resync(&r.real);
            let (right, left) = rot_candidates(&before, n);
            let is_right = now == right;
            let is_left = now == left;
            r.model = now.clone();
            if !is_right && !is_left {
                let class = classify_rotation(&before, &now, n);
                return Err((format!("rotate:{class}"), format!("rotate({n}) at height {height}: before {before:?} after {now:?}; expected a cyclic shift by one of exactly the top {n}")));
            }
            if n >= 3 && right != left && !is_right {
                // the documented direction (doc comment of `rotate`: "rotates them to the right",
                // [.., p3, p2, p1] -> [.., p1, p3, p2]): the top population moves to the bottom of the window
                r.direction = Some(false);
                return Err(("rotate:shifts-against-the-documented-direction".into(), format!("rotate({n}) at height {height}: before {before:?} after {now:?}; documented: the top population moves to the bottom of the top-{n} window")));
            }
            Ok(n >= 2)
        }
        Op::EditPush => {
            if height == 0 {
                let got = catch(|| r.real.get_current_mut().is_none());
                return match got {
                    Ok(true) => Ok(false),
                    Ok(false) => Err(("get_current_mut:invented".into(), "get_current_mut() on an empty stack returned Some".into())),
                    Err(p) => Err(("get_current_mut:panic:empty".into(), format!("get_current_mut() panicked on an empty stack: {p}"))),
                };
            }
            r.next_tag += 1;
            let t: Tag = (r.next_tag, Some(0.5f64.to_bits()));
            match catch(|| r.real.current_mut().push(mk(t))) {
                Ok(()) => {
                    r.model.last_mut().unwrap().push(t);
                    Ok(true)
                }
                Err(p) => Err(("current_mut:panic-nonempty".into(), format!("current_mut() panicked on a non-empty stack: {p}"))),
            }
        }
        Op::EditTruncate => {
            match catch(|| r.real.get_current_mut().map(|p| p.truncate(1)).is_some()) {
                Ok(some) if some == (height > 0) => {
                    if let Some(top) = r.model.last_mut() {
                        top.truncate(1);
                    }
                    Ok(height > 0)
                }
                Ok(some) => Err(("get_current_mut:wrong-presence".into(), format!("get_current_mut().is_some() = {some} at height {height}"))),
                Err(p) => Err((format!("get_current_mut:panic:{}", if height == 0 { "empty" } else { "nonempty" }), format!("get_current_mut() panicked: {p}"))),
            }
        }
        Op::EditCloneFrom => {
            if height == 0 {
                return Ok(false);
            }
            let src: Vec<Tag> = (0..2)
                .map(|j| {
                    r.next_tag += 1;
                    (r.next_tag, if j == 0 { Some((r.next_tag as f64 + 0.25).to_bits()) } else { None })
                })
                .collect();
            let src_inds: Vec<Individual<TagP>> = src.iter().map(|t| mk(*t)).collect();
            match catch(|| r.real.current_mut().clone_from(&src_inds)) {
                Ok(()) => {
                    *r.model.last_mut().unwrap() = src;
                    Ok(true)
                }
                Err(p) => Err(("current_mut:panic-nonempty".into(), format!("current_mut().clone_from(..) panicked: {p}"))),
            }
        }
        Op::EditObjective => {
            if height == 0 || r.model.last().unwrap().is_empty() {
                return Ok(false);
            }
            let v = 7.25f64;
            match catch(|| {
                r.real.current_mut()[0].set_objective(v.try_into().unwrap());
            }) {
                Ok(()) => {
                    r.model.last_mut().unwrap()[0].1 = Some(v.to_bits());
                    Ok(true)
                }
                Err(p) => Err(("current_mut:panic-nonempty".into(), format!("current_mut() panicked: {p}"))),
            }
        }
    }
}

fn resync(real: &Populations<TagP>) -> Model {
    // (through len() and guarded reads: the accessors themselves are under test)
    let mut m = Vec::new();
    for d in 0..real.len() {
        match catch(|| real.try_peek(d).map(view)) {
            Ok(Some(p)) => m.push(p),
            _ => break,
        }
    }
    m.reverse();
    m
}

fn classify_rotation(before: &Model, now: &Model, n: usize) -> String {
    if before.len() != now.len() {
        return "height-changed".into();
    }
    let len = before.len();
    // find the smallest window from the top that contains all changes
    let mut changed = 0;
    for i in 0..len {
        if before[i] != now[i] {
            changed = changed.max(len - i);
        }
    }
    let mut sorted_b: Vec<_> = before.clone();
    let mut sorted_n: Vec<_> = now.clone();
    sorted_b.sort();
    sorted_n.sort();
    if sorted_b != sorted_n {
        return "populations-altered".into();
    }
    if changed > n {
        format!("touches-{}-more-than-n", changed - n)
    } else {
        "not-a-shift-by-one".into()
    }
}

fn run_history(ops: &[Op]) -> Result<(), (String, String, usize)> {
    let mut r = Run { real: Populations::new(), model: Vec::new(), next_tag: 0, direction: None };
    for (i, &op) in ops.iter().enumerate() {
        if let Err((sig, msg)) = step(&mut r, op) {
            return Err((sig, msg, i));
        }
        if let Some(msg) = sweep(&r) {
            return Err((format!("sweep-after:{}", op_class(op)), msg, i));
        }
    }
    Ok(())
}

fn op_class(op: Op) -> &'static str {
    match op {
        Op::Push(_) => "push",
        Op::Pop => "pop",
        Op::TryPop => "try_pop",
        Op::Rotate(_) => "rotate",
        Op::EditPush | Op::EditTruncate | Op::EditObjective | Op::EditCloneFrom => "edit",
    }
}

fn exhaustive(rep: &Reporter, len: usize, max_rot: u8) {
    let alpha = alphabet(max_rot);
    let a = alpha.len();
    let total = a.pow(len as u32);
    let workers = num_workers();
    std::thread::scope(|s| {
        for range in mv::shards(total, workers) {
            let alpha = &alpha;
            s.spawn(move || {
                let mut local = Local::new();
                let mut ops = vec![alpha[0]; len];
                for idx in range {
                    let mut x = idx;
                    for slot in ops.iter_mut() {
                        *slot = alpha[x % a];
                        x /= a;
                    }
                    local.case();
                    // non-trivial: applicable (state-class, op) pairs — measured on the model
                    let mut height = 0usize;
                    for &op in &ops {
                        let applicable = match op {
                            Op::Push(_) => true,
                            Op::Pop | Op::TryPop | Op::EditPush | Op::EditTruncate | Op::EditObjective | Op::EditCloneFrom => height > 0,
                            Op::Rotate(n) => (n as usize) <= height && n >= 2,
                        };
                        if applicable {
                            local.nontrivial(hash_of(&(height, op)));
                        }
                        match op {
                            Op::Push(_) => height += 1,
                            Op::Pop | Op::TryPop => height = height.saturating_sub(1),
                            _ => {}
                        }
                    }
                    if let Err((sig, msg, at)) = run_history(&ops) {
                        rep.violation(&sig, json!({"kind": "exhaustive-history", "ops": format!("{:?}", &ops[..=at]), "failed_at": at, "observed": msg}));
                    }
                }
                rep.merge(local);
            });
        }
    });
    rep.count("exhaustive_histories", total as u64);
}

fn random_histories(rep: &Reporter, n_hist: usize, len: usize) {
    let alpha = alphabet(6);
    let workers = num_workers();
    std::thread::scope(|s| {
        for (w, range) in mv::shards(n_hist, workers).into_iter().enumerate() {
            let alpha = &alpha;
            s.spawn(move || {
                let mut rng = SplitMix64::new(rep.seed).fork(0xC04 + w as u64);
                let mut local = Local::new();
                for _ in range {
                    // bias towards deeper stacks
                    let ops: Vec<Op> = (0..len)
                        .map(|_| if rng.chance(0.35) { Op::Push(rng.below(3) as u8) } else { *rng.pick(alpha) })
                        .collect();
                    local.case();
                    local.nontrivial(hash_of(&ops));
                    if let Err((sig, msg, at)) = run_history(&ops) {
                        let from = at.saturating_sub(12);
                        rep.violation(&sig, json!({"kind": "random-history", "last_ops": format!("{:?}", &ops[from..=at]), "failed_at": at, "observed": msg}));
                    }
                }
                rep.merge(local);
            });
        }
    });
    rep.count("random_histories", n_hist as u64);
}

/// Rotation laws for every n up to the height, heights 0..=7.
fn rotation_laws(rep: &Reporter) {
    for height in 0..=7usize {
        for n in 0..=height {
            rep.case();
            rep.nontrivial(hash_of(&("rotlaw", height, n)));
            let build = || {
                let mut p = Populations::<TagP>::new();
                for h in 0..height {
                    p.push(vec![tagged(h as u32 * 10, Some(h as f64)), tagged(h as u32 * 10 + 1, None)]);
                }
                p
            };
            let class = if n == height { "n=height" } else if n == 0 { "n=0" } else { "n<height" };
            let mut p = build();
            let orig = resync(&p);
            let mut first = None;
            let mut failed = false;
            for k in 0..n.max(1) {
                if let Err(msg) = catch(|| p.rotate(n)) {
                    rep.violation(&format!("rotate:panic:{class}"), json!({"kind": "rotation-law", "height": height, "n": n, "application": k, "observed": msg}));
                    failed = true;
                    break;
                }
                if k == 0 {
                    first = Some(resync(&p));
                }
            }
            if failed {
                continue;
            }
            let now = resync(&p);
            if let Some(f) = first {
                let (right, left) = rot_candidates(&orig, n);
                if f != right && f != left {
                    rep.violation(&format!("rotate:{}", classify_rotation(&orig, &f, n)), json!({"kind": "rotation-law", "height": height, "n": n, "before": format!("{orig:?}"), "after_one": format!("{f:?}")}));
                    continue;
                }
                if f != right {
                    rep.violation("rotate:shifts-against-the-documented-direction", json!({"kind": "rotation-law", "height": height, "n": n, "before": format!("{orig:?}"), "after_one": format!("{f:?}")}));
                    continue;
                }
            }
            if now != orig {
                rep.violation("rotate:n-applications-do-not-restore", json!({"kind": "rotation-law", "height": height, "n": n, "before": format!("{orig:?}"), "after_n": format!("{now:?}")}));
            }
        }
    }
}

fn state_with(pops: &Model) -> State<'static, TagP> {
    let mut st = State::<TagP>::new();
    let mut p = Populations::<TagP>::new();
    for pop in pops {
        p.push(pop.iter().map(|t| mk(*t)).collect());
    }
    st.insert(p);
    st
}

fn model_of_state(st: &State<TagP>) -> Model {
    resync(&st.populations())
}

/// The utility components on prepared states.
fn components(rep: &Reporter) {
    let mut rng = SplitMix64::new(rep.seed).fork(0xC0C4);
    let problem = TagP;
    let n_random = rep.tier.pick(300, 50_000);
    for case in 0..n_random {
        let height = rng.usize(5);
        let mut tagc = 0u32;
        let objs = [-1.0, 0.0, 0.0, 1.0, 3.5, f64::INFINITY];
        let pops: Model = (0..height)
            .map(|_| {
                (0..rng.usize(6))
                    .map(|_| {
                        tagc += 1;
                        (tagc, Some(rng.pick(&objs).to_bits()))
                    })
                    .collect()
            })
            .collect();
        // RotatePopulations(n): Err (no panic) for n > height, rotation for n <= height
        for n in 0..=height + 2 {
            rep.case();
            rep.nontrivial(hash_of(&("RotatePopulations", height, n)));
            let mut st = state_with(&pops);
            let comp = RotatePopulations::new::<TagP>(n);
            let res = catch(|| comp.execute(&problem, &mut st).map_err(|e| e.to_string()));
            let class = if n > height { "n>height" } else if n == height { "n=height" } else if n == 0 { "n=0" } else { "n<height" };
            match res {
                Err(p) => rep.violation(&format!("RotatePopulations:panic:{class}"), json!({"component": "RotatePopulations", "n": n, "height": height, "observed": p})),
                Ok(Err(_)) if n > height => {
                    if model_of_state(&st) != pops {
                        rep.violation("RotatePopulations:err-but-modified", json!({"n": n, "height": height}));
                    }
                }
                Ok(Err(e)) => rep.violation(&format!("RotatePopulations:err:{class}"), json!({"component": "RotatePopulations", "n": n, "height": height, "observed": e})),
                Ok(Ok(())) if n > height => rep.violation("RotatePopulations:ok-for-n>height", json!({"n": n, "height": height})),
                Ok(Ok(())) => {
                    let now = model_of_state(&st);
                    let (right, left) = rot_candidates(&pops, n);
                    if now != right && now != left {
                        rep.violation(&format!("RotatePopulations:{}", classify_rotation(&pops, &now, n)), json!({"n": n, "height": height, "before": format!("{pops:?}"), "after": format!("{now:?}")}));
                    } else if now != right {
                        rep.violation("RotatePopulations:shifts-against-the-documented-direction", json!({"n": n, "height": height, "before": format!("{pops:?}"), "after": format!("{now:?}")}));
                    }
                }
            }
        }
        // an evaluation step (and a best-individual update behind it) is no stack operation: same height - also 0 -, every
        // population below untouched, the top one the same individuals in the same order (now evaluated), also when it is empty
        {
            rep.case();
            rep.nontrivial(hash_of(&("evaluate", height, pops.last().map(|p| p.len()))));
            let mut st = state_with(&pops);
            st.insert_evaluator(mahf::problems::evaluate::Sequential::<TagP>::new());
            let ev = mahf::components::evaluation::PopulationEvaluator::new::<TagP>();
            let r = catch(|| {
                ev.init(&problem, &mut st).map_err(|e| e.to_string())?;
                ev.execute(&problem, &mut st).map_err(|e| e.to_string())
            });
            let now = model_of_state(&st);
            let mut want = pops.clone();
            if let Some(top) = want.last_mut() {
                for t in top.iter_mut() {
                    t.1 = Some((t.0 as f64 * 0.5).to_bits());
                }
            }
            if !matches!(r, Ok(Ok(()))) || now != want {
                let kind = if now.len() != want.len() { "changes-the-stack-height" } else { "changes-the-populations" };
                let shape = if height == 0 { "empty-stack" } else if pops[height - 1].is_empty() { "empty-top-population" } else { "nonempty-top-population" };
                rep.violation(&format!("evaluation-step:{kind}:{shape}"), json!({"before": format!("{pops:?}"), "after": format!("{now:?}"), "result": format!("{r:?}")}));
            }
        }
        if height == 0 {
            continue;
        }
        let top = pops.last().unwrap().clone();
        let below: Model = pops[..height - 1].to_vec();
        // ClearPopulation
        {
            rep.case();
            let mut st = state_with(&pops);
            let r = catch(|| ClearPopulation::new::<TagP>().execute(&problem, &mut st).map_err(|e| e.to_string()));
            let now = model_of_state(&st);
            let mut want = below.clone();
            want.push(vec![]);
            if !matches!(r, Ok(Ok(()))) || now != want {
                rep.violation("ClearPopulation:wrong", json!({"before": format!("{pops:?}"), "after": format!("{now:?}"), "result": format!("{r:?}")}));
            }
        }
        // DuplicatePopulation: each individual immediately followed by its duplicate
        {
            rep.case();
            rep.nontrivial(hash_of(&("Duplicate", top.len(), case % 7)));
            let mut st = state_with(&pops);
            let r = catch(|| DuplicatePopulation::new::<TagP>().execute(&problem, &mut st).map_err(|e| e.to_string()));
            let now = model_of_state(&st);
            let mut want = below.clone();
            want.push(top.iter().flat_map(|t| [*t, *t]).collect());
            if !matches!(r, Ok(Ok(()))) || now != want {
                rep.violation("DuplicatePopulation:wrong", json!({"before": format!("{pops:?}"), "after": format!("{now:?}"), "result": format!("{r:?}")}));
            }
        }
        // SplitPopulationByObjectiveValue: two halves, the one on top no worse than the one below
        if top.len() >= 2 {
            rep.case();
            rep.nontrivial(hash_of(&("Split", &top)));
            let mut st = state_with(&pops);
            let r = catch(|| SplitPopulationByObjectiveValue::new::<TagP>().execute(&problem, &mut st).map_err(|e| e.to_string()));
            let now = model_of_state(&st);
            let ok = (|| {
                if !matches!(r, Ok(Ok(()))) || now.len() != height + 1 || now[..height - 1] != below[..] {
                    return false;
                }
                let a = &now[height - 1]; // lower on the stack
                let b = &now[height]; // top
                let n = top.len();
                let mut sizes = [a.len(), b.len()];
                sizes.sort();
                if sizes != [n / 2, (n + 1) / 2] {
                    return false;
                }
                let mut all: Vec<Tag> = a.iter().chain(b.iter()).cloned().collect();
                let mut orig = top.clone();
                all.sort();
                orig.sort();
                if all != orig {
                    return false;
                }
                let val = |t: &Tag| f64::from_bits(t.1.unwrap());
                // one half is entirely no worse than the other
                let max_b = b.iter().map(val).fold(f64::NEG_INFINITY, f64::max);
                let min_a = a.iter().map(val).fold(f64::INFINITY, f64::min);
                let max_a = a.iter().map(val).fold(f64::NEG_INFINITY, f64::max);
                let min_b = b.iter().map(val).fold(f64::INFINITY, f64::min);
                max_b <= min_a || max_a <= min_b
            })();
            if !ok {
                rep.violation("SplitPopulationByObjectiveValue:wrong", json!({"before": format!("{pops:?}"), "after": format!("{now:?}"), "result": format!("{r:?}")}));
            }
        }
        // InterleavePopulations: one population with the members of both, order of each kept
        if height >= 2 {
            rep.case();
            rep.nontrivial(hash_of(&("Interleave", pops[height - 1].len(), pops[height - 2].len())));
            let mut st = state_with(&pops);
            let r = catch(|| InterleavePopulations::new::<TagP>().execute(&problem, &mut st).map_err(|e| e.to_string()));
            let now = model_of_state(&st);
            let p1 = &pops[height - 1];
            let p2 = &pops[height - 2];
            let ok = matches!(r, Ok(Ok(()))) && now.len() == height - 1 && now[..height - 2] == pops[..height - 2] && {
                let merged = &now[height - 2];
                let sub1: Vec<Tag> = merged.iter().filter(|t| p1.contains(t)).cloned().collect();
                let sub2: Vec<Tag> = merged.iter().filter(|t| p2.contains(t)).cloned().collect();
                merged.len() == p1.len() + p2.len() && &sub1 == p1 && &sub2 == p2
            };
            if !ok {
                rep.violation("InterleavePopulations:wrong", json!({"before": format!("{pops:?}"), "after": format!("{now:?}"), "result": format!("{r:?}")}));
            }
        }
    }
}

fn main() {
    let rep = Reporter::from_args("C04");
    rep.rule("histories over {push k-sized, pop, try_pop, rotate n (also n > height: a refused rotation leaves the stack as it was), four in-place edits incl. clone_from over evaluated individuals; try_peek also at absurd depths} on Populations<TagP> vs a Vec<Vec<tag>> model with a full-depth sweep after every op; exhaustive up to the stated length, plus seeded random histories, rotation laws for all n<=height<=7 (cyclic shift by one of exactly the top n, in the documented direction: the top population moves to the bottom of the window), and the five population utility components on prepared states; distinct_nontrivial counts distinct (stack height, applicable op) pairs in exhaustive histories, distinct random histories, and distinct component input classes");
    rep.assume("Individual<TagP> equality (tag, objective bits) identifies individuals");
    let (len, max_rot) = rep.tier.pick((6usize, 3u8), (7usize, 4u8));
    rep.set("exhaustive_history_length", json!(len));
    rep.sample(json!({"history": format!("{:?}", [Op::Push(2), Op::Push(1), Op::Push(0), Op::Rotate(3), Op::TryPop, Op::Rotate(2)])}));
    rotation_laws(&rep);
    exhaustive(&rep, len, max_rot);
    let (n_hist, hlen) = rep.tier.pick((400, 400), (30_000, 2000));
    random_histories(&rep, n_hist, hlen);
    components(&rep);
    rep.exhaustive(true);
    rep.finish();
}
