//! C18 — particle swarm keeps velocities clamped and best memories consistent (step observer).
use std::sync::Mutex;

use mahf::{
    components::{boundary, initialization, mapping, swarm::pso as sp, Block, Scope},
    conditions::LessThanN,
    heuristics::pso,
    identifier::{Global, Identifier},
    lens::ValueOf,
    state::common::{Iterations, Populations, Progress},
    verif::StepEvent,
    Configuration, State,
};
use mv::{hash_of, num_workers, problems::*, Reporter, SplitMix64};
use serde_json::json;

type P = Real;
type W<I> = sp::InertiaWeight<sp::ParticleVelocitiesUpdate<I>>;

#[derive(Clone, Debug, serde::Serialize)]
struct Params {
    swarm: u32,
    dim: usize,
    lo: f64,
    hi: f64,
    start_w: f64,
    end_w: f64,
    c1: f64,
    c2: f64,
    v_max: f64,
    n: u32,
    seed: u64,
    with_weight_update: bool,
    via_template: bool,
    /// a better foreign solution is recorded as the run's best individual before the swarm exists
    warm_start: bool,
    f: RealFn,
    /// loop condition: 0 = iterations(n); 1 = evaluations(e) | iterations(n) with e reached half-way (n passes as well;
    /// the iteration bound - the one the weight schedule follows - is the SECOND operand)
    cond: u8,
    /// a second, smaller swarm (size, passes) run to completion inside a scope at the end of every pass of the outer swarm
    nested: Option<(u32, u32)>,
    /// the nested swarm runs among the repairs (before the weight update of the pass) instead of after the memory update
    nested_among_repairs: bool,
    /// the whole swarm under the non-default identifier `identifier::A` (its own evaluator, memories and weight)
    ident_a: bool,
}

#[derive(Default)]
struct Rec {
    // before the velocity update
    x_before: Vec<Vec<f64>>,
    v_before: Vec<Vec<f64>>,
    pbest_before: Vec<Vec<f64>>,
    gbest_before: Vec<f64>,
    w_before: f64,
    have_before: bool,
    // per-particle history of evaluated positions: (objective, solution hash)
    history: Vec<Vec<(f64, u64)>>,
    pbest_obj_prev: Vec<f64>,
    velocity_updates: u64,
    weight_updates: u64,
    memory_updates: u64,
    clamped_components: u64,
    violations: Vec<(String, String)>,
    loop_started: bool,
}

/// One record per scope depth: a swarm nested in a scope has its own memories, and they vanish with the scope.
#[derive(Default)]
struct Recs {
    by_depth: std::collections::BTreeMap<usize, Rec>,
    closed: Vec<Rec>,
}

fn sizes_ok<I: Identifier>(state: &State<P>) -> Option<String> {
    let n = state.populations().current().len();
    let v = state.try_borrow::<sp::ParticleVelocities<I>>().ok().map(|v| v.len());
    let pb = state.try_borrow::<sp::BestParticles<P, I>>().ok().map(|v| v.len());
    match (v, pb) {
        (Some(v), Some(pb)) if v == n && pb == n => None,
        (Some(0), Some(0)) => None, // before the swarm initialisation ran
        (v, pb) => Some(format!("particles {n}, velocities {v:?}, personal bests {pb:?}")),
    }
}

fn observe<I: Identifier>(recs: &Mutex<Recs>, prm: &Params, ev: StepEvent<'_, P>, state: &State<P>) {
    let depth = mv::observe::scope_depth(state);
    let mut all = recs.lock().unwrap();
    // scopes that have been left took their swarm with them
    let gone: Vec<usize> = all.by_depth.keys().copied().filter(|d| *d > depth).collect();
    for d in gone {
        let r = all.by_depth.remove(&d).unwrap();
        all.closed.push(r);
    }
    let r = all.by_depth.entry(depth).or_default();
    let (before, component) = match ev {
        StepEvent::BlockChild { before, component, .. } => (before, component),
        StepEvent::LoopPass { .. } => {
            // the swarm memories are complete once the swarm initialisation block has run
            r.loop_started = true;
            return;
        }
    };
    let name = mv::sniff::name_of(component);
    let outer = depth == 1;
    let cur_solutions = || -> Vec<Vec<f64>> { state.populations().current().iter().map(|i| i.solution().clone()).collect() };
    match name.as_str() {
        "ParticleVelocitiesUpdate" => {
            if before {
                r.x_before = cur_solutions();
                r.v_before = state.borrow::<sp::ParticleVelocities<I>>().iter().cloned().collect();
                r.pbest_before = state.borrow::<sp::BestParticles<P, I>>().iter().map(|i| i.solution().clone()).collect();
                r.gbest_before = state.borrow::<sp::BestParticle<P, I>>().as_ref().map(|i| i.solution().clone()).unwrap_or_default();
                r.w_before = state.get_value::<W<I>>();
                r.have_before = true;
            } else if r.have_before {
                r.have_before = false;
                r.velocity_updates += 1;
                let x_after = cur_solutions();
                let v_after: Vec<Vec<f64>> = state.borrow::<sp::ParticleVelocities<I>>().iter().cloned().collect();
                if x_after.len() != r.x_before.len() || v_after.len() != r.x_before.len() {
                    let m = format!("particles {} -> {}, velocities {}", r.x_before.len(), x_after.len(), v_after.len());
                    r.violations.push(("velocity-update:collection-sizes-differ".into(), m));
                    return;
                }
                let (w, c1, c2, vm) = (r.w_before, prm.c1, prm.c2, prm.v_max);
                let mut bad: Option<(String, String)> = None;
                let mut clamped = 0;
                for i in 0..x_after.len() {
                    for d in 0..prm.dim {
                        let (x0, x1, v0, v1) = (r.x_before[i][d], x_after[i][d], r.v_before[i][d], v_after[i][d]);
                        if !(v1 >= -vm && v1 <= vm) {
                            bad = Some(("velocity-update:velocity-outside-[-v_max,v_max]".into(), format!("particle {i} dim {d}: v = {v1}, v_max = {vm}")));
                        } else if (x0 + v1).to_bits() != x1.to_bits() {
                            bad = Some(("velocity-update:particle-did-not-move-by-its-new-velocity".into(), format!("particle {i} dim {d}: x {x0} -> {x1} (moved by {}), new velocity {v1}", x1 - x0)));
                        } else {
                            let d1 = r.pbest_before[i][d] - x0;
                            let d2 = r.gbest_before[d] - x0;
                            let a = w * v0;
                            let lo = a + (c1 * d1).min(0.0) + (c2 * d2).min(0.0);
                            let hi = a + (c1 * d1).max(0.0) + (c2 * d2).max(0.0);
                            let tol = 1e-9 * (1.0 + lo.abs().max(hi.abs()));
                            let (clo, chi) = ((lo - tol).clamp(-vm, vm), (hi + tol).clamp(-vm, vm));
                            if v1 == vm || v1 == -vm {
                                clamped += 1;
                            }
                            if !(v1 >= clo && v1 <= chi) {
                                bad = Some((
                                    if c1 == 0.0 && c2 == 0.0 { "velocity-update:old-velocity-not-scaled-by-the-stored-weight".into() } else { "velocity-update:new-velocity-outside-the-update-formula-range".into() },
                                    format!("particle {i} dim {d}: v_old {v0}, stored weight {w}, pbest-x {d1}, gbest-x {d2}, c1 {c1}, c2 {c2}: v_new {v1} not in clamp([{lo}, {hi}])"),
                                ));
                            }
                        }
                    }
                }
                r.clamped_components += clamped;
                if let Some(b) = bad {
                    r.violations.push(b);
                }
            }
        }
        "PopulationEvaluator" if !before => {
            let pops = state.populations();
            let cur = pops.current();
            if r.history.len() != cur.len() {
                r.history = vec![Vec::new(); cur.len()];
            }
            for (i, ind) in cur.iter().enumerate() {
                if let Some(o) = ind.get_objective() {
                    r.history[i].push((o.value(), hash_f64s(ind.solution())));
                }
            }
        }
        "Linear" if !before => {
            r.weight_updates += 1;
            // the loop's current progress, computed from the iteration counter and not read back from the state the
            // loop condition maintains
            let progress = state.try_get_value::<Iterations>().map(|k| k as f64 / prm.n as f64).unwrap_or(f64::NAN);
            let w = state.get_value::<W<I>>();
            let _ = outer;
            let want = (prm.end_w - prm.start_w) * progress + prm.start_w;
            if w.to_bits() != want.to_bits() && !((w - want).abs() <= 1e-12) {
                r.violations.push((
                    if prm.start_w < prm.end_w { "weight-update:not-the-linear-interpolation:increasing-schedule".into() } else { "weight-update:not-the-linear-interpolation".into() },
                    format!("start {} end {} progress {progress}: stored weight {w}, expected {want}", prm.start_w, prm.end_w),
                ));
            }
        }
        "GlobalBestParticleUpdate" if !before => {
            // runs right after the personal-best update (and once in the swarm initialisation)
            r.memory_updates += 1;
            let pb = state.borrow::<sp::BestParticles<P, I>>();
            let gb = state.borrow::<sp::BestParticle<P, I>>();
            if pb.len() != r.history.len() || pb.is_empty() {
                return;
            }
            let mut viol: Vec<(String, String)> = Vec::new();
            let mut min_pb = f64::INFINITY;
            for i in 0..pb.len() {
                let o = pb[i].objective().value();
                min_pb = min_pb.min(o);
                let h = &r.history[i];
                if h.is_empty() {
                    continue;
                }
                let best = h.iter().map(|x| x.0).fold(f64::INFINITY, f64::min);
                let first = h.iter().find(|x| x.0 == best).unwrap();
                if o.to_bits() != best.to_bits() {
                    viol.push(("memory:personal-best-is-not-the-best-evaluated-position".into(), format!("particle {i}: personal best {o}, best evaluated so far {best} ({} evaluations)", h.len())));
                } else if hash_f64s(pb[i].solution()) != first.1 {
                    viol.push(("memory:personal-best-replaced-on-a-tie".into(), format!("particle {i}: personal best objective {o} but not the first position that reached it")));
                }
                if let Some(prev) = r.pbest_obj_prev.get(i) {
                    if o > *prev {
                        viol.push(("memory:personal-best-got-worse".into(), format!("particle {i}: {prev} -> {o}")));
                    }
                }
            }
            match gb.as_ref() {
                Some(g) if g.objective().value().to_bits() == min_pb.to_bits() => {}
                other => viol.push(("memory:global-best-is-not-the-best-personal-best".into(), format!("global best {:?}, best personal best {min_pb}", other.map(|g| g.objective().value())))),
            }
            let objs: Vec<f64> = pb.iter().map(|i| i.objective().value()).collect();
            drop(pb);
            drop(gb);
            r.pbest_obj_prev = objs;
            r.violations.extend(viol);
        }
        _ => {}
    }
    // (after the harness component that removes a nested swarm's population the innermost memories belong to a population that is gone)
    if !before && r.loop_started && name != "PopTop" {
        if let Some(m) = sizes_ok::<I>(state) {
            r.violations.push(("sizes:collections-do-not-have-one-entry-per-particle".into(), format!("after {name}: {m}")));
        }
    }
}

/// Records the (known) optimum of the problem as the run's best individual: PSO as a later stage of a run.
#[derive(Clone, serde::Serialize)]
struct InjectBest;
impl mahf::Component<P> for InjectBest {
    fn execute(&self, problem: &P, state: &mut State<P>) -> mahf::ExecResult<()> {
        let sol: Vec<f64> = match problem.f {
            RealFn::ShiftedSphere => (0..problem.domains.len()).map(|i| (0.25 * (i as f64 + 1.0)).clamp(problem.domains[i].0, problem.domains[i].1)).collect(),
            _ => problem.domains.iter().map(|d| 0.0f64.clamp(d.0, d.1)).collect(),
        };
        let v = problem.f_pure(&sol);
        state.borrow_mut::<mahf::state::common::BestIndividual<P>>().update(&mahf::Individual::new(sol, v.try_into().unwrap()));
        Ok(())
    }
}

/// Removes the population a nested swarm worked on, so that the outer swarm is the current population again.
#[derive(Clone, serde::Serialize)]
struct PopTop;
impl mahf::Component<P> for PopTop {
    fn execute(&self, _problem: &P, state: &mut State<P>) -> mahf::ExecResult<()> {
        state.populations_mut().pop();
        Ok(())
    }
}

/// The swarm initialisation / memory update blocks, assembled from the identifier-aware components
/// (`ParticleSwarmInit::<I>::new_with_id` and `ParticleSwarmUpdate::<I>::new_with_id` build the `Global` ones whatever
/// `I` is - a swarm under another identifier then fails its requirement check before anything runs; not judged here).
fn swarm_init<I: Identifier>(v_max: f64) -> Result<Box<dyn mahf::Component<P>>, String> {
    Ok(Block::new(vec![
        Box::new(sp::ParticleVelocitiesInit::<I>::from_params(v_max).map_err(|e| e.to_string())?) as Box<dyn mahf::Component<P>>,
        Box::new(sp::PersonalBestParticlesInit::<I>::from_params()),
        Box::new(sp::GlobalBestParticleUpdate::<I>::from_params()),
    ]))
}
fn swarm_update<I: Identifier>() -> Box<dyn mahf::Component<P>> {
    Block::new(vec![Box::new(sp::PersonalBestParticlesUpdate::<I>::from_params()) as Box<dyn mahf::Component<P>>, Box::new(sp::GlobalBestParticleUpdate::<I>::from_params())])
}

fn loop_cond(prm: &Params) -> Box<dyn mahf::Condition<P>> {
    match prm.cond {
        0 => LessThanN::iterations(prm.n),
        _ => LessThanN::evaluations(prm.swarm * (prm.n / 2 + 1)) | LessThanN::iterations(prm.n),
    }
}

fn build<I: Identifier>(prm: &Params) -> Result<Configuration<P>, String> {
    if prm.via_template {
        return pso::real_pso::<P>(
            pso::RealProblemParameters { num_particles: prm.swarm, start_weight: prm.start_w, end_weight: prm.end_w, c_one: prm.c1, c_two: prm.c2, v_max: prm.v_max },
            loop_cond(prm),
        )
        .map_err(|e| format!("{e:#}"));
    }
    let nested_scope: Option<Box<dyn mahf::Component<P>>> = match prm.nested {
        None => None,
        Some((m, k)) => {
            let inner = pso::pso::<P, I>(
                pso::Parameters {
                    particle_init: swarm_init::<I>(prm.v_max)?,
                    particle_update: sp::ParticleVelocitiesUpdate::<I>::new_with_id(0.6, prm.c1, prm.c2, prm.v_max).map_err(|e| e.to_string())?,
                    constraints: boundary::Saturation::new(),
                    inertia_weight_update: None,
                    state_update: swarm_update::<I>(),
                },
                LessThanN::iterations(k),
            );
            Some(Scope::new(vec![initialization::RandomSpread::new(m), mahf::components::evaluation::PopulationEvaluator::<I>::new_with(), inner, Box::new(PopTop) as Box<dyn mahf::Component<P>>]))
        }
    };
    let (constraints, state_update): (Box<dyn mahf::Component<P>>, Box<dyn mahf::Component<P>>) = match (nested_scope, prm.nested_among_repairs) {
        (None, _) => (boundary::Saturation::new(), swarm_update::<I>()),
        (Some(scope), true) => (Block::new(vec![boundary::Saturation::new(), scope]), swarm_update::<I>()),
        (Some(scope), false) => (boundary::Saturation::new(), Block::new(vec![swarm_update::<I>(), scope])),
    };
    let inner = pso::pso::<P, I>(
        pso::Parameters {
            particle_init: swarm_init::<I>(prm.v_max)?,
            particle_update: sp::ParticleVelocitiesUpdate::<I>::new_with_id(prm.start_w, prm.c1, prm.c2, prm.v_max).map_err(|e| e.to_string())?,
            constraints,
            inertia_weight_update: if prm.with_weight_update {
                Some(mapping::Linear::new(prm.start_w, prm.end_w, ValueOf::<Progress<ValueOf<Iterations>>>::new(), ValueOf::<W<I>>::new()))
            } else {
                None
            },
            state_update,
        },
        loop_cond(prm),
    );
    let mut b = Configuration::builder().do_(initialization::RandomSpread::new(prm.swarm)).evaluate_with::<I>().update_best_individual();
    if prm.warm_start {
        b = b.do_(Box::new(InjectBest));
    }
    Ok(b.do_(inner).build())
}

fn run(rep: &Reporter, prm: &Params) {
    if prm.ident_a {
        run_as::<mahf::identifier::A>(rep, prm)
    } else {
        run_as::<Global>(rep, prm)
    }
}

fn run_as<I: Identifier>(rep: &Reporter, prm: &Params) {
    let problem = Real::new(prm.dim, prm.lo, prm.hi, prm.f);
    let cfg = match build::<I>(prm) {
        Ok(c) => c,
        Err(e) => {
            rep.violation("pso:constructor-rejects-valid-parameters", json!({"params": prm, "error": e}));
            return;
        }
    };
    let rec = Mutex::new(Recs::default());
    // the initial evaluation happens before the PSO block: seed the history from the first evaluator too
    // (the evaluator is registered under the swarm's identifier as well)
    let res = mv::observe::run_observed_prepared(&cfg, &problem, prm.seed, false, None, |state| state.insert_evaluator_as::<I>(mahf::problems::evaluate::Sequential::<P>::new()), |ev, _p, s| observe::<I>(&rec, prm, ev, s));
    rep.case();
    rep.nontrivial(hash_of(&format!("{prm:?}")));
    let mut all = rec.lock().unwrap();
    let mut r = Rec::default();
    let by_depth = std::mem::take(&mut all.by_depth);
    let closed = std::mem::take(&mut all.closed);
    rep.count("nested_swarm_instances_observed", closed.len() as u64);
    for part in by_depth.into_values().chain(closed) {
        r.velocity_updates += part.velocity_updates;
        r.weight_updates += part.weight_updates;
        r.memory_updates += part.memory_updates;
        r.clamped_components += part.clamped_components;
        r.violations.extend(part.violations);
    }
    rep.count("velocity_updates_observed", r.velocity_updates);
    rep.count("weight_updates_observed", r.weight_updates);
    rep.count("memory_updates_observed", r.memory_updates);
    rep.count("velocity_components_at_the_clamp", r.clamped_components);
    if !matches!(res, Ok(Ok(_))) {
        rep.violation("pso:run-failed", json!({"params": prm, "result": format!("{:?}", res.map(|r| r.map(|_| ())))}));
    }
    let mut seen = std::collections::HashSet::new();
    for (sig, msg) in r.violations.iter() {
        if seen.insert(sig.clone()) {
            rep.violation(sig, json!({"params": prm, "observed": msg}));
        }
    }
    if rep.want_sample() && r.velocity_updates > 5 && r.clamped_components > 0 {
        rep.sample(json!({"params": prm, "velocity_updates": r.velocity_updates, "weight_updates": r.weight_updates, "memory_updates": r.memory_updates, "components_at_the_clamp": r.clamped_components}));
    }
}

fn main() {
    let rep = Reporter::from_args("C18");
    rep.rule("runs of real_pso and of harness-assembled pso variants (PSO as a later stage after a better foreign solution became the run's best individual, without weight update, with increasing/decreasing/constant schedules, c1=c2=0) over swarm sizes 1..20, dimensions 1..5, domains, (start,end) weights in {(.9,.4),(.5,.5),(0,0),(.4,.9),(1.2,1.2),(1.5,.4)}, c in {0,1.7}, v_max in {1e-3*width,.1,1,10}, n<=40, seeds; observed at the step-observer hook: after every velocity update |v|<=v_max, x_after == x_before + v_new bit-exact, v_new within clamp(w_stored*v_old + [0,c1](pbest-x) + [0,c2](gbest-x)) (exact scaling when c1=c2=0); after every weight update w == (end-start)*progress + start; after every memory update pbest_i == first best evaluated position of particle i (harness keeps the per-particle history), never worse, gbest == best pbest; after every component the three collections have one entry per particle. distinct_nontrivial = distinct parameter cells");
    rep.assume("the population is evaluated once per pass by the evaluation step; component names identify the PSO steps");
    let mut rng = SplitMix64::new(rep.seed).fork(0xC18);
    // (weights above 1 are legal: the clamp is what keeps the velocities bounded then)
    let weights = [(0.9, 0.4), (0.5, 0.5), (0.0, 0.0), (0.4, 0.9), (1.2, 1.2), (1.5, 0.4)];
    let mut cells: Vec<Params> = Vec::new();
    let n_cells = rep.tier.pick(6_000, 8_000_000);
    for k in 0..n_cells {
        let (lo, hi) = *rng.pick(&[(-1.0, 1.0), (-5.12, 5.12), (0.0, 10.0), (-10.0, 10.0)]);
        let width = hi - lo;
        let (sw, ew) = weights[k % weights.len()];
        let c = if rng.chance(0.3) { (0.0, 0.0) } else { *rng.pick(&[(1.7, 1.7), (1.7, 0.0), (0.0, 1.7), (0.5, 2.0)]) };
        let via_template = k % 3 == 0;
        cells.push(Params {
            swarm: *rng.pick(&[1u32, 2, 3, 5, 8, 20]),
            dim: 1 + rng.usize(5),
            lo,
            hi,
            start_w: sw,
            end_w: ew,
            c1: c.0,
            c2: c.1,
            v_max: *rng.pick(&[1e-3 * width, 0.1, 1.0, 10.0, 0.25]),
            n: *rng.pick(&[1u32, 2, 5, 17, 40]),
            seed: rng.below(1 << 40),
            with_weight_update: via_template || rng.chance(0.7),
            via_template,
            warm_start: !via_template && rng.chance(0.3),
            f: *rng.pick(&[RealFn::Sphere, RealFn::Rastrigin, RealFn::Plateau, RealFn::ShiftedSphere, RealFn::AllInf]),
            cond: (rng.chance(0.3)) as u8,
            nested: if !via_template && rng.chance(0.25) { Some((*rng.pick(&[1u32, 2, 3, 5]), 1 + rng.below(3) as u32)) } else { None },
            nested_among_repairs: rng.bool(),
            ident_a: !via_template && rng.chance(0.3),
        });
    }
    std::thread::scope(|s| {
        for range in mv::shards(cells.len(), num_workers()) {
            let cells = &cells;
            let rep = &rep;
            s.spawn(move || {
                for i in range {
                    run(rep, &cells[i]);
                }
            });
        }
    });
    if rep.counter("velocity_updates_observed") == 0 || rep.counter("memory_updates_observed") == 0 || rep.counter("weight_updates_observed") == 0 {
        rep.inconclusive("hook never reached for one of the PSO steps");
    }
    if rep.counter("velocity_components_at_the_clamp") == 0 {
        rep.inconclusive("the velocity clamp was never active in any observed update");
    }
    let _ = Populations::<P>::new;
    rep.finish();
}
