//! C02 — dynamic borrows: readers xor writer, multi-borrow, holding.
use mv::{
    c02::{self, all_hold_cases, run_hold_case, run_session, session_alphabet, session_alphabet_full, Cx, SOp, SessionStats},
    hash_of, num_workers,
    report::Local,
    Reporter, SplitMix64,
};
use serde_json::json;

fn sessions_exhaustive(rep: &Reporter, len: usize) {
    let alpha = session_alphabet();
    let a = alpha.len();
    let total = a.pow(len as u32);
    let layouts = [3u8, 1u8]; // both types shadowed / only type 0 shadowed (type 1 resolves to the parent)
    std::thread::scope(|s| {
        for range in mv::shards(total, num_workers()) {
            let alpha = &alpha;
            s.spawn(move || {
                let mut local = Local::new();
                let mut ops = vec![alpha[0]; len];
                let mut stats = SessionStats::default();
                for idx in range {
                    let mut x = idx;
                    for slot in ops.iter_mut() {
                        *slot = alpha[x % a];
                        x /= a;
                    }
                    for &layout in &layouts {
                        local.case();
                        let before = stats.conflicts_seen;
                        if let Err((sig, msg, at)) = run_session(layout, &ops, &mut stats) {
                            rep.violation(&sig, json!({"kind": "exhaustive-session", "layout": layout, "ops": format!("{:?}", &ops[..at.min(len - 1) + 1]), "failed_at": at, "observed": msg}));
                        }
                        if stats.conflicts_seen > before {
                            local.nontrivial(hash_of(&(layout, &ops)));
                        }
                    }
                }
                local.count("session_guards_granted", stats.granted);
                local.count("session_requests_refused", stats.refused);
                rep.merge(local);
            });
        }
    });
    rep.count("exhaustive_sessions", 2 * total as u64);
}

fn sessions_random(rep: &Reporter, n: usize, len: usize) {
    let alpha = session_alphabet_full();
    std::thread::scope(|s| {
        for (w, range) in mv::shards(n, num_workers()).into_iter().enumerate() {
            let alpha = &alpha;
            s.spawn(move || {
                let mut rng = SplitMix64::new(rep.seed).fork(0xC02 + w as u64);
                let mut local = Local::new();
                let mut stats = SessionStats::default();
                for _ in range {
                    let layout = rng.below(4) as u8;
                    let ops: Vec<SOp> = (0..len).map(|_| *rng.pick(alpha)).collect();
                    local.case();
                    local.nontrivial(hash_of(&(layout, &ops)));
                    if let Err((sig, msg, at)) = run_session(layout, &ops, &mut stats) {
                        let from = at.saturating_sub(10);
                        rep.violation(&sig, json!({"kind": "random-session", "layout": layout, "last_ops": format!("{:?}", &ops[from..at.min(len - 1) + 1]), "failed_at": at, "observed": msg}));
                    }
                }
                local.count("session_guards_granted", stats.granted);
                local.count("session_requests_refused", stats.refused);
                local.count("max_live_guards_seen", 0);
                rep.merge(local);
                rep.distinct("max_live_guards", stats.max_live as u64);
            });
        }
    });
    rep.count("random_sessions", n as u64);
}

fn tuples(rep: &Reporter) {
    let mut cx = Cx::default();
    c02::gen_quick::tuples_quick(&mut cx);
    #[cfg(feature = "thorough_tuples")]
    c02::gen_thorough::tuples_thorough(&mut cx);
    rep.cases(cx.calls);
    for h in &cx.distinct_cases {
        rep.nontrivial(*h);
    }
    rep.count("tuple_types_instantiated", cx.tuples);
    rep.count("multi_borrow_calls", cx.calls);
    rep.count("multi_borrow_granted", cx.granted);
    rep.count("multi_borrow_refused_repeated_type", cx.refused_repeat);
    rep.count("multi_borrow_refused_missing_type", cx.refused_missing);
    if let Some(s) = cx.sample {
        rep.sample(json!({"multi_borrow": s, "against": "registries with every used type present / only in the parent scope / shadowed / one missing"}));
    }
    for (sig, msg) in cx.violations {
        rep.violation(&sig, json!({"kind": "multi-borrow", "observed": msg}));
    }
}

/// Exclusive guards handed out by the entry API: a write through the guard must land in the
/// innermost instance of the type and be what every later reader sees (also after the scope is closed).
fn entry_guards(rep: &Reporter) {
    use mahf::StateRegistry;
    use mv::c01model::{SA, SL};
    let mem = 5u32;
    for layout in 0..4u8 {
        for ty in 0..2u8 {
            for how in 0..3u8 {
                rep.case();
                rep.nontrivial(hash_of(&("entry-guard", layout, ty, how)));
                let mut w = c02::SessionWorld::new(&mem, layout);
                let v = 900 + (layout as u32) * 10 + ty as u32;
                if ty == 0 {
                    let e = w.state.entry::<SL>();
                    let mut g = match how {
                        0 => e.or_insert(SL { r: &mem, v: 0 }),
                        1 => e.or_insert_with(|| SL { r: &mem, v: 0 }),
                        _ => e.and_modify_value(|x| *x += 0).or_insert(SL { r: &mem, v: 0 }),
                    };
                    g.v = v;
                } else {
                    let e = w.state.entry::<SA>();
                    let mut g = match how {
                        0 => e.or_insert(SA(0)),
                        1 => e.or_default(),
                        _ => e.and_modify_value(|x| *x += 0).or_insert(SA(0)),
                    };
                    g.0 = v;
                }
                let shadowed = layout & (1 << ty) != 0;
                let inner = if ty == 0 { w.state.try_get_value::<SL>().ok() } else { w.state.try_get_value::<SA>().ok() };
                let reg: StateRegistry = w.state.into();
                let (parent, child) = reg.into_parent();
                let parent = parent.unwrap();
                let outer = if ty == 0 { parent.try_get_value::<SL>().ok() } else { parent.try_get_value::<SA>().ok() };
                let child_has = if ty == 0 { child.contains_at_top::<SL>() } else { child.contains_at_top::<SA>() };
                let outer_orig = if ty == 0 { 1 } else { 2 };
                let ok = inner == Some(v) && child_has == shadowed && outer == Some(if shadowed { outer_orig } else { v });
                let via = ["or_insert", "or_insert_with/or_default", "and_modify_value.or_insert"][how as usize];
                if !ok {
                    rep.violation(
                        "entry-guard:write-does-not-reach-the-innermost-instance",
                        json!({"kind": "entry-guard", "layout": layout, "type": ty, "via": via, "written": v, "reader_in_inner_scope": inner, "reader_after_pop": outer, "popped_scope_holds_type": child_has, "type_was_shadowed_in_inner_scope": shadowed}),
                    );
                }
            }
        }
    }
}

fn holdings(rep: &Reporter) {
    let cases = all_hold_cases();
    let n = cases.len();
    std::thread::scope(|s| {
        for range in mv::shards(n, num_workers()) {
            let cases = &cases;
            s.spawn(move || {
                let mut local = Local::new();
                for i in range {
                    let c = &cases[i];
                    local.case();
                    local.nontrivial(hash_of(&("hold", c.placement, c.depth, &c.nest, c.fail_level)));
                    if c.fail_level > 0 {
                        local.count("holding_cases_with_failing_closure", 1);
                    }
                    for (sig, msg) in run_hold_case(c) {
                        rep.violation(&sig, json!({"kind": "holding", "placement_bitmasks_per_type": c.placement, "scopes": c.depth, "nesting": c.nest, "fail_level": c.fail_level, "observed": msg}));
                    }
                }
                rep.merge(local);
            });
        }
    });
    rep.count("holding_cases", n as u64);
}

fn main() {
    let rep = Reporter::from_args("C02");
    rep.fold_aux();
    rep.rule("(1) borrow sessions: every sequence up to the stated length over {acquire shared/exclusive, probe (try_get_value + try_borrow_value + set_value + try_borrow_value_mut), release k, write-through k} on 2 types x 2 scopes (2 shadowing layouts), guards kept alive in a harness-side vector, compared with a per-cell readers/writer/value model after every step; plus random sessions (<=8 live guards, absent type, panicking twins); (2) multi-borrow: generated tuple types (each its own monomorphisation) against registries with the used types present / parent-only / shadowed / missing; (3) holding: all placements of 3 types in 1-3 scopes x all nestings of depth<=3 x which level fails. distinct_nontrivial = sessions in which at least one conflict was provoked + distinct tuple/registry cases + distinct holding cases");
    rep.assume("RefCell-backed guards are the only way to reach a state; the model's cell identity = (resolved scope, type)");
    let len = rep.tier.pick(5usize, 6usize);
    rep.set("exhaustive_session_length", json!(len));
    rep.sample(json!({"session": format!("{:?}", [SOp::AcqShared(0, 0), SOp::AcqShared(1, 0), SOp::AcqExcl(0, 0), SOp::Release(0), SOp::AcqExcl(0, 0), SOp::Write(1)])}));
    sessions_exhaustive(&rep, len);
    let (n, l) = rep.tier.pick((2_000, 60), (40_000, 200));
    sessions_random(&rep, n, l);
    tuples(&rep);
    entry_guards(&rep);
    holdings(&rep);
    rep.exhaustive(true);
    rep.finish();
}
