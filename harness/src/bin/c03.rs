//! C03 — structured-program semantics and lifecycle: trace of probe events vs a reference
//! interpreter written from the property statement, with single-fault injection.
use std::{
    collections::BTreeMap,
    sync::{Arc, Mutex},
};

use better_any::{Tid, TidAble};
use derive_more::{Deref, DerefMut};
use mahf::{
    components::{Block, Branch, Loop, Scope},
    conditions::{And, Condition, Not, Or},
    state::{common::{Evaluations, Iterations}, StateReq},
    Component, Configuration, CustomState, ExecResult, State,
};
use mv::{hash_of, num_workers, problems::TagP, report::Local, Reporter, SplitMix64};
use serde::Serialize;
use serde_json::json;

// ---- harness state types --------------------------------------------------------------------
macro_rules! st {
    ($($n:ident),*) => {$(
        #[derive(Tid, Deref, DerefMut, Default)]
        pub struct $n(pub u32);
        impl CustomState<'_> for $n {}
    )*};
}
st!(Sent, Cnt, Mk0, Mk1, Extra, Lz);

#[derive(Clone, Copy, Debug, PartialEq, Eq, PartialOrd, Ord, Hash)]
enum K {
    Sent,
    Cnt,
    Mk0,
    Mk1,
    Iter,
    Lz,
}

#[derive(Clone, Copy, Debug, PartialEq, Eq, PartialOrd, Ord, Hash, Serialize)]
enum Phase {
    Init,
    Require,
    Exec, // execute (component) / evaluate (condition)
}

#[derive(Clone, Copy, Debug, PartialEq, Eq, Hash, Serialize)]
enum LeafKind {
    Plain,
    Create0,  // init: insert Mk0(id)
    Require0, // require: Mk0 present
    Bump,     // execute: Cnt += 1 (innermost instance)
    Shadow,   // init: insert Sent(1000 + id) into the current scope
    Create1,
    Require1,
    /// execute: state created lazily through the entry API (`entry::<Lz>().or_default()`), then counted up: it is
    /// created in the scope the leaf runs in - and gone with it - unless an enclosing scope already holds it
    Lazy,
    /// execute: removes marker 0 from the innermost scope holding it (if any): a scope entered afterwards whose body
    /// requires the marker must stop at its requirement check, every time it is entered
    Drop0,
}
const KINDS: [LeafKind; 9] = [LeafKind::Plain, LeafKind::Create0, LeafKind::Require0, LeafKind::Bump, LeafKind::Shadow, LeafKind::Create1, LeafKind::Require1, LeafKind::Lazy, LeafKind::Drop0];

type Ev = (Phase, u32);

#[derive(Clone, Copy, Debug, PartialEq, Eq, Hash)]
struct Fault {
    id: u32,
    phase: Phase,
    nth: u32, // 1-based call number of (id, phase)
}

#[derive(Default)]
struct SharedInner {
    trace: Vec<Ev>,
    fault: Option<Fault>,
    calls: BTreeMap<(u32, Phase), u32>,
    scripts: Vec<Vec<bool>>, // by condition index
    pos: Vec<usize>,
    events: usize,
}

#[derive(Default)]
struct Shared(Mutex<SharedInner>);

impl Shared {
    /// Records the event; returns Err if the fault plan says this call fails.
    fn hit(&self, id: u32, phase: Phase) -> ExecResult<()> {
        let mut s = self.0.lock().unwrap();
        s.trace.push((phase, id));
        s.events += 1;
        let c = {
            let c = s.calls.entry((id, phase)).or_insert(0);
            *c += 1;
            *c
        };
        if let Some(f) = s.fault {
            if f.id == id && f.phase == phase && f.nth == c {
                return Err(eyre::eyre!("injected fault at node {id} phase {phase:?} call {}", f.nth));
            }
        }
        if s.events > 100_000 {
            return Err(eyre::eyre!("harness event budget exceeded"));
        }
        Ok(())
    }
}

#[derive(Clone, Serialize)]
struct Probe {
    id: u32,
    kind: LeafKind,
    #[serde(skip)]
    shared: Arc<Shared>,
}

impl Component<TagP> for Probe {
    fn init(&self, _p: &TagP, state: &mut State<TagP>) -> ExecResult<()> {
        self.shared.hit(self.id, Phase::Init)?;
        match self.kind {
            LeafKind::Create0 => drop(state.insert(Mk0(self.id))),
            LeafKind::Create1 => drop(state.insert(Mk1(self.id))),
            LeafKind::Shadow => drop(state.insert(Sent(1000 + self.id))),
            _ => {}
        }
        Ok(())
    }
    fn require(&self, _p: &TagP, req: &StateReq<TagP>) -> ExecResult<()> {
        self.shared.hit(self.id, Phase::Require)?;
        match self.kind {
            LeafKind::Require0 => req.require::<Self, Mk0>()?,
            LeafKind::Require1 => req.require::<Self, Mk1>()?,
            _ => {}
        }
        Ok(())
    }
    fn execute(&self, _p: &TagP, state: &mut State<TagP>) -> ExecResult<()> {
        self.shared.hit(self.id, Phase::Exec)?;
        if self.kind == LeafKind::Bump {
            if self.id % 2 == 1 {
                // the entry API must resolve to the innermost scope holding the type, however deep we are
                state.entry::<Cnt>().or_default().0 += 1;
            } else {
                *state.try_borrow_value_mut::<Cnt>()? += 1;
            }
        }
        if self.kind == LeafKind::Lazy {
            state.entry::<Lz>().or_default().0 += 1;
        }
        if self.kind == LeafKind::Drop0 {
            let _ = state.remove::<Mk0>();
        }
        Ok(())
    }
}

#[derive(Clone, Serialize)]
struct Script {
    id: u32,
    cond: usize,
    #[serde(skip)]
    shared: Arc<Shared>,
}

impl Condition<TagP> for Script {
    fn init(&self, _p: &TagP, _s: &mut State<TagP>) -> ExecResult<()> {
        self.shared.hit(self.id, Phase::Init)?;
        self.shared.0.lock().unwrap().pos[self.cond] = 0;
        Ok(())
    }
    fn require(&self, _p: &TagP, _r: &StateReq<TagP>) -> ExecResult<()> {
        self.shared.hit(self.id, Phase::Require)
    }
    fn evaluate(&self, _p: &TagP, _s: &mut State<TagP>) -> ExecResult<bool> {
        self.shared.hit(self.id, Phase::Exec)?;
        let mut s = self.shared.0.lock().unwrap();
        let p = s.pos[self.cond];
        s.pos[self.cond] += 1;
        Ok(s.scripts[self.cond].get(p).copied().unwrap_or(false))
    }
}

/// Second operand of a compound condition: constant value, but traced and fault-injectable like every node.
#[derive(Clone, Serialize)]
struct Tail {
    id: u32,
    value: bool,
    #[serde(skip)]
    shared: Arc<Shared>,
}

impl Condition<TagP> for Tail {
    fn init(&self, _p: &TagP, _s: &mut State<TagP>) -> ExecResult<()> {
        self.shared.hit(self.id, Phase::Init)
    }
    fn require(&self, _p: &TagP, _r: &StateReq<TagP>) -> ExecResult<()> {
        self.shared.hit(self.id, Phase::Require)
    }
    fn evaluate(&self, _p: &TagP, _s: &mut State<TagP>) -> ExecResult<bool> {
        self.shared.hit(self.id, Phase::Exec)?;
        Ok(self.value)
    }
}

const TAIL: u32 = 10_000;

/// How the scripted condition of a node is wrapped: 0 plain, 1 `!!c`, 2 `c & true-tail`, 3 `c | false-tail`.
/// All four have the truth value of `c`; 2 and 3 must evaluate (init, require) the tail every time as well.
fn cond_box(id: u32, cond: usize, mode: u8, sh: &Arc<Shared>, operators: bool) -> Box<dyn Condition<TagP>> {
    let s: Box<dyn Condition<TagP>> = Box::new(Script { id, cond, shared: sh.clone() });
    let tail = |value: bool| -> Box<dyn Condition<TagP>> { Box::new(Tail { id: TAIL + id, value, shared: sh.clone() }) };
    match (mode, operators) {
        (0, _) => s,
        (1, false) => Not::new(Not::new(s)),
        (1, true) => !(!s),
        (2, false) => And::new([s, tail(true)]),
        (2, true) => s & tail(true),
        (_, false) => Or::new([s, tail(false)]),
        (_, true) => s | tail(false),
    }
}

// ---- trees ----------------------------------------------------------------------------------
#[derive(Clone, Debug, PartialEq, Eq, Hash)]
enum Item {
    Leaf,
    While(Vec<Item>),
    If(Vec<Item>),
    IfElse(Vec<Item>, Vec<Item>),
    Scope(Vec<Item>),
}

/// Tree with ids (pre-order) and leaf kinds / condition indices resolved.
#[derive(Clone, Debug)]
enum Node {
    Leaf { id: u32, kind: LeafKind },
    While { id: u32, cond: usize, mode: u8, body: Vec<Node> },
    If { id: u32, cond: usize, mode: u8, body: Vec<Node> },
    IfElse { id: u32, cond: usize, mode: u8, a: Vec<Node>, b: Vec<Node> },
    Scope { body: Vec<Node> },
}

fn items(k: usize, memo: &mut Vec<Option<Vec<Item>>>, smemo: &mut Vec<Option<Vec<Vec<Item>>>>) -> Vec<Item> {
    if let Some(v) = &memo[k] {
        return v.clone();
    }
    let mut out = Vec::new();
    if k == 1 {
        out.push(Item::Leaf);
    }
    if k >= 1 {
        for body in seqs(k - 1, memo, smemo) {
            out.push(Item::While(body.clone()));
            out.push(Item::If(body.clone()));
            out.push(Item::Scope(body));
        }
        for a in 0..k {
            let b = k - 1 - a;
            for x in seqs(a, memo, smemo) {
                for y in seqs(b, memo, smemo) {
                    out.push(Item::IfElse(x.clone(), y));
                }
            }
        }
    }
    memo[k] = Some(out.clone());
    out
}

fn seqs(k: usize, memo: &mut Vec<Option<Vec<Item>>>, smemo: &mut Vec<Option<Vec<Vec<Item>>>>) -> Vec<Vec<Item>> {
    if let Some(v) = &smemo[k] {
        return v.clone();
    }
    let mut out = Vec::new();
    if k == 0 {
        out.push(vec![]);
    } else {
        for j in 1..=k {
            let firsts = items(j, memo, smemo);
            let rests = seqs(k - j, memo, smemo);
            for f in &firsts {
                for r in &rests {
                    let mut s = vec![f.clone()];
                    s.extend(r.iter().cloned());
                    out.push(s);
                }
            }
        }
    }
    smemo[k] = Some(out.clone());
    out
}

struct Numbering {
    next_id: u32,
    next_cond: usize,
    leaf_ix: usize,
    kind_variant: usize,
    explicit_kinds: Option<Vec<LeafKind>>,
}

impl Numbering {
    /// exhaustive trees: variant 0 keeps plain scripted conditions, variants 1 and 2 wrap them; random trees wrap by id
    fn mode(&self, id: u32) -> u8 {
        if self.kind_variant == 0 && self.explicit_kinds.is_none() {
            0
        } else {
            ((id as usize + self.kind_variant) % 4) as u8
        }
    }
}

fn number(seq: &[Item], n: &mut Numbering) -> Vec<Node> {
    seq.iter()
        .map(|it| match it {
            Item::Leaf => {
                let id = n.next_id;
                n.next_id += 1;
                let kind = match &n.explicit_kinds {
                    Some(k) => k[n.leaf_ix % k.len()],
                    None => KINDS[(n.leaf_ix * 3 + n.kind_variant * 2 + n.kind_variant * n.leaf_ix) % KINDS.len()],
                };
                n.leaf_ix += 1;
                Node::Leaf { id, kind }
            }
            Item::While(b) => {
                let id = n.next_id;
                n.next_id += 1;
                let cond = n.next_cond;
                n.next_cond += 1;
                Node::While { id, cond, mode: n.mode(id), body: number(b, n) }
            }
            Item::If(b) => {
                let id = n.next_id;
                n.next_id += 1;
                let cond = n.next_cond;
                n.next_cond += 1;
                Node::If { id, cond, mode: n.mode(id), body: number(b, n) }
            }
            Item::IfElse(a, b) => {
                let id = n.next_id;
                n.next_id += 1;
                let cond = n.next_cond;
                n.next_cond += 1;
                let a = number(a, n);
                let b = number(b, n);
                Node::IfElse { id, cond, mode: n.mode(id), a, b }
            }
            Item::Scope(b) => Node::Scope { body: number(b, n) },
        })
        .collect()
}

// ---- building real configurations -----------------------------------------------------------
fn build_direct(seq: &[Node], sh: &Arc<Shared>) -> Vec<Box<dyn Component<TagP>>> {
    seq.iter()
        .map(|n| -> Box<dyn Component<TagP>> {
            match n {
                Node::Leaf { id, kind } => Box::new(Probe { id: *id, kind: *kind, shared: sh.clone() }),
                Node::While { id, cond, mode, body } => Loop::new(cond_box(*id, *cond, *mode, sh, false), build_direct(body, sh)),
                Node::If { id, cond, mode, body } => Branch::new(cond_box(*id, *cond, *mode, sh, false), build_direct(body, sh)),
                Node::IfElse { id, cond, mode, a, b } => Branch::new_with_else(cond_box(*id, *cond, *mode, sh, false), build_direct(a, sh), build_direct(b, sh)),
                Node::Scope { body } => Scope::new(build_direct(body, sh)),
            }
        })
        .collect()
}

fn build_dsl(seq: &[Node], sh: &Arc<Shared>, mut b: mahf::configuration::ConfigurationBuilder<TagP>) -> mahf::configuration::ConfigurationBuilder<TagP> {
    for n in seq {
        b = match n {
            Node::Leaf { id, kind } => b.do_(Box::new(Probe { id: *id, kind: *kind, shared: sh.clone() })),
            Node::While { id, cond, mode, body } => b.while_(cond_box(*id, *cond, *mode, sh, true), |bb| build_dsl(body, sh, bb)),
            Node::If { id, cond, mode, body } => b.if_(cond_box(*id, *cond, *mode, sh, true), |bb| build_dsl(body, sh, bb)),
            Node::IfElse { id, cond, mode, a, b: e } => b.if_else_(cond_box(*id, *cond, *mode, sh, true), |bb| build_dsl(a, sh, bb), |bb| build_dsl(e, sh, bb)),
            Node::Scope { body } => b.scope_(|bb| build_dsl(body, sh, bb)),
        };
    }
    b
}

// ---- reference interpreter (from the property statement) ------------------------------------
#[derive(Debug, Clone, PartialEq)]
enum Stop {
    Injected(Fault),
    RequirementMissing,
}

struct Interp<'a> {
    trace: Vec<Ev>,
    st: Vec<BTreeMap<K, u32>>,
    fault: Option<Fault>,
    calls: BTreeMap<(u32, Phase), u32>,
    scripts: &'a [Vec<bool>],
    pos: Vec<usize>,
    /// number of loops initialised per scope instance, to know whether Iterations is determined
    loops_at_root: u32,
    zero_iter_loops: u32,
    scope_entries: u32,
    fault_in_scope: bool,
}

impl<'a> Interp<'a> {
    fn hit(&mut self, id: u32, phase: Phase) -> Result<(), Stop> {
        self.trace.push((phase, id));
        let c = {
            let c = self.calls.entry((id, phase)).or_insert(0);
            *c += 1;
            *c
        };
        if let Some(f) = self.fault {
            if f.id == id && f.phase == phase && f.nth == c {
                if self.st.len() > 1 {
                    self.fault_in_scope = true;
                }
                return Err(Stop::Injected(f));
            }
        }
        Ok(())
    }
    fn contains(&self, k: K) -> bool {
        self.st.iter().any(|m| m.contains_key(&k))
    }
    fn innermost(&mut self, k: K) -> Option<&mut u32> {
        self.st.iter_mut().rev().find_map(|m| m.get_mut(&k))
    }
    fn top(&mut self) -> &mut BTreeMap<K, u32> {
        self.st.last_mut().unwrap()
    }

    fn init_seq(&mut self, seq: &[Node]) -> Result<(), Stop> {
        for n in seq {
            match n {
                Node::Leaf { id, kind } => {
                    self.hit(*id, Phase::Init)?;
                    match kind {
                        LeafKind::Create0 => drop(self.top().insert(K::Mk0, *id)),
                        LeafKind::Create1 => drop(self.top().insert(K::Mk1, *id)),
                        LeafKind::Shadow => drop(self.top().insert(K::Sent, 1000 + id)),
                        _ => {}
                    }
                }
                Node::While { id, cond, mode, body } => {
                    self.top().insert(K::Iter, 0);
                    if self.st.len() == 1 {
                        self.loops_at_root += 1;
                    }
                    self.cond_init(*id, *cond, *mode)?;
                    self.init_seq(body)?;
                }
                Node::If { id, cond, mode, body } => {
                    self.cond_init(*id, *cond, *mode)?;
                    self.init_seq(body)?;
                }
                Node::IfElse { id, cond, mode, a, b } => {
                    self.cond_init(*id, *cond, *mode)?;
                    self.init_seq(a)?;
                    self.init_seq(b)?;
                }
                Node::Scope { .. } => {} // a scope body is initialised when (each time) the scope is entered
            }
        }
        Ok(())
    }

    fn require_seq(&mut self, seq: &[Node]) -> Result<(), Stop> {
        for n in seq {
            match n {
                Node::Leaf { id, kind } => {
                    self.hit(*id, Phase::Require)?;
                    let need = match kind {
                        LeafKind::Require0 => Some(K::Mk0),
                        LeafKind::Require1 => Some(K::Mk1),
                        _ => None,
                    };
                    if let Some(k) = need {
                        if !self.contains(k) {
                            return Err(Stop::RequirementMissing);
                        }
                    }
                }
                Node::While { id, mode, body, .. } | Node::If { id, mode, body, .. } => {
                    self.hit(*id, Phase::Require)?;
                    if *mode >= 2 {
                        self.hit(TAIL + *id, Phase::Require)?;
                    }
                    self.require_seq(body)?;
                }
                Node::IfElse { id, mode, a, b, .. } => {
                    self.hit(*id, Phase::Require)?;
                    if *mode >= 2 {
                        self.hit(TAIL + *id, Phase::Require)?;
                    }
                    self.require_seq(a)?;
                    self.require_seq(b)?;
                }
                Node::Scope { .. } => {}
            }
        }
        Ok(())
    }

    /// every operand of a compound condition is initialised, in order
    fn cond_init(&mut self, id: u32, cond: usize, mode: u8) -> Result<(), Stop> {
        self.hit(id, Phase::Init)?;
        self.pos[cond] = 0;
        if mode >= 2 {
            self.hit(TAIL + id, Phase::Init)?;
        }
        Ok(())
    }

    /// every operand is evaluated on every test (no short-circuit); the first failing operand stops the run
    fn eval(&mut self, id: u32, cond: usize, mode: u8) -> Result<bool, Stop> {
        self.hit(id, Phase::Exec)?;
        let p = self.pos[cond];
        self.pos[cond] += 1;
        if mode >= 2 {
            self.hit(TAIL + id, Phase::Exec)?;
        }
        Ok(self.scripts[cond].get(p).copied().unwrap_or(false))
    }

    fn exec_seq(&mut self, seq: &[Node]) -> Result<(), Stop> {
        for n in seq {
            match n {
                Node::Leaf { id, kind } => {
                    self.hit(*id, Phase::Exec)?;
                    if *kind == LeafKind::Bump {
                        *self.innermost(K::Cnt).expect("caller provides Cnt") += 1;
                    }
                    if *kind == LeafKind::Drop0 {
                        if let Some(m) = self.st.iter_mut().rev().find(|m| m.contains_key(&K::Mk0)) {
                            m.remove(&K::Mk0);
                        }
                    }
                    if *kind == LeafKind::Lazy {
                        match self.innermost(K::Lz) {
                            Some(v) => *v += 1,
                            None => drop(self.top().insert(K::Lz, 1)),
                        }
                    }
                }
                Node::While { id, cond, mode, body } => {
                    // re-initialise the condition on entry
                    self.cond_init(*id, *cond, *mode)?;
                    let mut passes = 0;
                    while self.eval(*id, *cond, *mode)? {
                        self.exec_seq(body)?;
                        *self.innermost(K::Iter).expect("loop init inserted Iterations") += 1;
                        passes += 1;
                    }
                    if passes == 0 {
                        self.zero_iter_loops += 1;
                    }
                }
                Node::If { id, cond, mode, body } => {
                    if self.eval(*id, *cond, *mode)? {
                        self.exec_seq(body)?;
                    }
                }
                Node::IfElse { id, cond, mode, a, b } => {
                    if self.eval(*id, *cond, *mode)? {
                        self.exec_seq(a)?;
                    } else {
                        self.exec_seq(b)?;
                    }
                }
                Node::Scope { body } => {
                    self.scope_entries += 1;
                    self.st.push(BTreeMap::new());
                    let r = (|| {
                        self.init_seq(body)?;
                        self.require_seq(body)?;
                        self.exec_seq(body)
                    })();
                    self.st.pop(); // closed again whatever happened; inner state is gone
                    r?;
                }
            }
        }
        Ok(())
    }

    fn run(&mut self, prog: &[Node]) -> Result<(), Stop> {
        self.init_seq(prog)?;
        self.require_seq(prog)?;
        self.exec_seq(prog)
    }
}

// ---- one case ----------------------------------------------------------------------------------
struct Prepared {
    prog: Vec<Node>,
    n_conds: usize,
    ids: Vec<(u32, bool)>, // (id, is_condition)
    direct: Configuration<TagP>,
    dsl: Configuration<TagP>,
    shared: Arc<Shared>,
    loops_in_some_scope_twice: bool,
}

fn collect_ids(seq: &[Node], out: &mut Vec<(u32, bool)>) {
    for n in seq {
        match n {
            Node::Leaf { id, .. } => out.push((*id, false)),
            Node::While { id, mode, body, .. } | Node::If { id, mode, body, .. } => {
                out.push((*id, true));
                if *mode >= 2 {
                    out.push((TAIL + *id, true));
                }
                collect_ids(body, out);
            }
            Node::IfElse { id, mode, a, b, .. } => {
                out.push((*id, true));
                if *mode >= 2 {
                    out.push((TAIL + *id, true));
                }
                collect_ids(a, out);
                collect_ids(b, out);
            }
            Node::Scope { body } => collect_ids(body, out),
        }
    }
}

/// true if some scope level (root or one Scope body, not looking into nested scopes) has >= 2 loops
fn multi_loop_level(seq: &[Node]) -> bool {
    fn count(seq: &[Node], nested: &mut bool) -> u32 {
        let mut c = 0;
        for n in seq {
            match n {
                Node::Leaf { .. } => {}
                Node::While { body, .. } => c += 1 + count(body, nested),
                Node::If { body, .. } => c += count(body, nested),
                Node::IfElse { a, b, .. } => c += count(a, nested) + count(b, nested),
                Node::Scope { body } => {
                    if count(body, nested) >= 2 {
                        *nested = true;
                    }
                }
            }
        }
        c
    }
    let mut nested = false;
    let c = count(seq, &mut nested);
    c >= 2 || nested
}

fn prepare(shape: &[Item], kind_variant: usize, explicit: Option<Vec<LeafKind>>) -> Prepared {
    let mut n = Numbering { next_id: 1, next_cond: 0, leaf_ix: 0, kind_variant, explicit_kinds: explicit };
    let prog = number(shape, &mut n);
    let shared = Arc::new(Shared::default());
    let direct = Configuration::new(Block::new(build_direct(&prog, &shared)));
    let dsl = build_dsl(&prog, &shared, Configuration::builder()).build();
    // every third tree: the DSL configuration taken apart and wrapped again (into_inner / From / into_builder)
    let dsl = if kind_variant == 1 { Configuration::from(dsl.into_inner()).into_builder().build() } else { dsl };
    let mut ids = Vec::new();
    collect_ids(&prog, &mut ids);
    let loops_in_some_scope_twice = multi_loop_level(&prog);
    Prepared { prog, n_conds: n.next_cond, ids, direct, dsl, shared, loops_in_some_scope_twice }
}

#[derive(Default)]
struct CaseStats {
    zero_iter_loops: u32,
    scope_entries: u32,
    fault_in_scope: bool,
    failed: bool,
}

fn run_case(p: &Prepared, scripts: &[Vec<bool>], fault: Option<Fault>, use_dsl: bool, stats: &mut CaseStats) -> Option<(String, String)> {
    // reference
    let mut root = BTreeMap::new();
    root.insert(K::Sent, 42);
    root.insert(K::Cnt, 0);
    let mut it = Interp {
        trace: Vec::new(),
        st: vec![root],
        fault,
        calls: BTreeMap::new(),
        scripts,
        pos: vec![0; p.n_conds],
        loops_at_root: 0,
        zero_iter_loops: 0,
        scope_entries: 0,
        fault_in_scope: false,
    };
    let expect = it.run(&p.prog);
    stats.zero_iter_loops = it.zero_iter_loops;
    stats.scope_entries = it.scope_entries;
    stats.fault_in_scope = it.fault_in_scope;
    stats.failed = expect.is_err();

    // real
    {
        let mut s = p.shared.0.lock().unwrap();
        *s = SharedInner { fault, scripts: scripts.to_vec(), pos: vec![0; p.n_conds], ..Default::default() };
    }
    let mut state: State<TagP> = State::new();
    state.insert(Sent(42));
    state.insert(Cnt(0));
    state.insert(Extra(5));
    let cfg = if use_dsl { &p.dsl } else { &p.direct };
    let res = mv::catch(|| cfg.run(&TagP, &mut state).map_err(|e| format!("{e:#}")));
    let trace = std::mem::take(&mut p.shared.0.lock().unwrap().trace);
    let how = if use_dsl { "builder" } else { "constructors" };

    let res = match res {
        Ok(r) => r,
        Err(panic) => return Some((format!("panic:{}", phase_of(&expect)), format!("run panicked ({how}): {panic}"))),
    };
    if trace != it.trace {
        let k = trace.iter().zip(it.trace.iter()).take_while(|(a, b)| a == b).count();
        let class = classify_trace_diff(&trace, &it.trace, k, &p.prog);
        return Some((
            format!("trace:{class}"),
            format!("({how}) traces diverge at event {k}: real {:?} vs reference {:?}; real trace {:?}; reference {:?}", trace.get(k), it.trace.get(k), trace, it.trace),
        ));
    }
    match (&res, &expect) {
        (Ok(()), Ok(())) => {}
        (Err(e), Err(Stop::Injected(f))) => {
            if !e.contains(&format!("injected fault at node {} phase {:?} call {}", f.id, f.phase, f.nth)) {
                return Some(("result:wrong-error-returned".into(), format!("({how}) expected the injected error of {f:?}, got {e:?}")));
            }
        }
        (Err(_), Err(Stop::RequirementMissing)) => {}
        (Ok(()), Err(s)) => return Some(("result:error-swallowed".into(), format!("({how}) reference stops with {s:?} but run returned Ok"))),
        (Err(e), Ok(())) => return Some(("result:spurious-error".into(), format!("({how}) run returned {e:?} but the reference completes"))),
    }
    // final caller state
    let depth = mv::observe::scope_depth(&state);
    let failed = if expect.is_err() { "after-error" } else { "after-ok" };
    if depth != 1 {
        return Some((format!("state:{failed}:scope-left-open"), format!("({how}) state has {depth} scopes after the run")));
    }
    let m = &it.st[0];
    let got_sent = state.try_get_value::<Sent>().ok();
    let got_cnt = state.try_get_value::<Cnt>().ok();
    let got_extra = state.try_get_value::<Extra>().ok();
    let got_m0 = state.try_get_value::<Mk0>().ok();
    let got_m1 = state.try_get_value::<Mk1>().ok();
    let got_lz = state.try_get_value::<Lz>().ok();
    if got_lz != m.get(&K::Lz).copied() {
        return Some((format!("state:{failed}:lazily-created-state-wrong"), format!("({how}) state created through the entry API by leaves: caller sees {got_lz:?}, reference {:?} (created inside a scope it must be gone, created outside it must persist and count every execution)", m.get(&K::Lz))));
    }
    if got_sent != m.get(&K::Sent).copied() || got_extra != Some(5) {
        return Some((format!("state:{failed}:caller-state-lost-or-changed"), format!("({how}) sentinel {got_sent:?} (reference {:?}), extra {got_extra:?} (reference Some(5))", m.get(&K::Sent))));
    }
    if got_cnt != m.get(&K::Cnt).copied() {
        return Some((format!("state:{failed}:outer-write-wrong"), format!("({how}) counter written by bump leaves is {got_cnt:?}, reference {:?}", m.get(&K::Cnt))));
    }
    if got_m0 != m.get(&K::Mk0).copied() || got_m1 != m.get(&K::Mk1).copied() {
        return Some((format!("state:{failed}:marker-visibility-wrong"), format!("({how}) markers {got_m0:?}/{got_m1:?}, reference {:?}/{:?} (state created inside a scope must be gone, outside must persist)", m.get(&K::Mk0), m.get(&K::Mk1))));
    }
    // loops at the same scope level share one counter (each `Loop::init` inserts it anew, every completed pass of any of
    // them counts it up): the reference interpreter does exactly that
    let _ = p.loops_in_some_scope_twice;
    {
        let got_it = state.try_get_value::<Iterations>().ok();
        if got_it != m.get(&K::Iter).copied() {
            return Some((format!("state:{failed}:iterations-wrong"), format!("({how}) Iterations = {got_it:?}, reference {:?}", m.get(&K::Iter))));
        }
    }
    None
}

fn phase_of(e: &Result<(), Stop>) -> &'static str {
    match e {
        Ok(()) => "no-fault",
        Err(Stop::Injected(f)) => match f.phase {
            Phase::Init => "fault-in-init",
            Phase::Require => "fault-in-require",
            Phase::Exec => "fault-in-execute",
        },
        Err(Stop::RequirementMissing) => "requirement-missing",
    }
}

fn classify_trace_diff(real: &[Ev], reference: &[Ev], k: usize, _prog: &[Node]) -> String {
    let r = real.get(k);
    let e = reference.get(k);
    match (r, e) {
        (None, Some(e)) => format!("real-stops-early-before-{:?}", e.0),
        (Some(r), None) => format!("real-continues-after-reference-stopped-with-{:?}", r.0),
        (Some(r), Some(e)) => format!("expected-{:?}-got-{:?}", e.0, r.0),
        (None, None) => "same".into(),
    }
}

fn all_scripts(max_len: usize) -> Vec<Vec<bool>> {
    let mut out = vec![vec![]];
    for len in 1..=max_len {
        for code in 0..(1u32 << len) {
            out.push((0..len).map(|i| code & (1 << i) != 0).collect());
        }
    }
    out
}

fn faults_for(p: &Prepared) -> Vec<Option<Fault>> {
    let mut f = vec![None];
    for &(id, _) in &p.ids {
        for phase in [Phase::Init, Phase::Require, Phase::Exec] {
            for nth in 1..=2 {
                f.push(Some(Fault { id, phase, nth }));
            }
        }
    }
    f
}

fn check_program(rep: &Reporter, local: &mut Local, p: &Prepared, script_sets: &[Vec<Vec<bool>>], shape_desc: &dyn Fn() -> String) {
    let faults = faults_for(p);
    for (si, scripts) in script_sets.iter().enumerate() {
        for fault in &faults {
            for use_dsl in [false, true] {
                // the two constructions are equivalent; run the DSL one on a third of the cases
                if use_dsl && (si + fault.map(|f| f.id as usize).unwrap_or(0)) % 3 != 0 {
                    continue;
                }
                local.case();
                let mut stats = CaseStats::default();
                let v = run_case(p, scripts, *fault, use_dsl, &mut stats);
                if stats.failed || stats.scope_entries > 0 || stats.zero_iter_loops > 0 {
                    local.nontrivial(hash_of(&(shape_desc(), scripts, fault.map(|f| (f.id, f.phase as u8, f.nth)))));
                }
                if stats.zero_iter_loops > 0 {
                    local.count("cases_with_zero_iteration_loop", 1);
                }
                if stats.fault_in_scope {
                    local.count("cases_with_fault_inside_a_scope", 1);
                }
                if stats.scope_entries > 1 {
                    local.count("cases_entering_scopes_repeatedly", 1);
                }
                if let Some(f) = fault {
                    if stats.failed {
                        local.count(
                            match f.phase {
                                Phase::Init => "faults_hit_in_init",
                                Phase::Require => "faults_hit_in_require",
                                Phase::Exec => "faults_hit_in_execute",
                            },
                            1,
                        );
                    }
                }
                if let Some((sig, msg)) = v {
                    rep.violation(&sig, json!({"tree": shape_desc(), "scripts_per_condition": scripts, "fault": fault.map(|f| format!("{f:?}")), "observed": msg}));
                }
            }
        }
    }
}

fn script_sets_for(n_conds: usize, all: &[Vec<bool>], rng: &mut SplitMix64, cap: usize) -> Vec<Vec<Vec<bool>>> {
    let total = all.len().pow(n_conds as u32);
    if n_conds == 0 {
        return vec![vec![]];
    }
    if total <= cap {
        (0..total)
            .map(|mut code| {
                (0..n_conds)
                    .map(|_| {
                        let s = all[code % all.len()].clone();
                        code /= all.len();
                        s
                    })
                    .collect()
            })
            .collect()
    } else {
        (0..cap).map(|_| (0..n_conds).map(|_| rng.pick(all).clone()).collect()).collect()
    }
}

fn random_shape(rng: &mut SplitMix64, budget: &mut usize, depth: usize) -> Vec<Item> {
    let mut out = Vec::new();
    let n = 1 + rng.usize(4);
    for _ in 0..n {
        if *budget == 0 {
            break;
        }
        *budget -= 1;
        let r = if depth >= 7 { 0 } else { rng.usize(10) };
        out.push(match r {
            0..=4 => Item::Leaf,
            5 => Item::While(random_shape(rng, budget, depth + 1)),
            6 => Item::If(random_shape(rng, budget, depth + 1)),
            7 => Item::IfElse(random_shape(rng, budget, depth + 1), random_shape(rng, budget, depth + 1)),
            _ => Item::Scope(random_shape(rng, budget, depth + 1)),
        });
    }
    out
}

// ---- evaluation counter across scopes ---------------------------------------------------------
// A leaf that counts like an evaluation step (init: a fresh `Evaluations(0)` in the scope it is initialised in; execute:
// the innermost counter += 1) inside sequences, two-pass loops and scopes built with `Scope::new` / `scope_`: when a
// scope is left, what its own counter holds goes to the nearest enclosing counter - and a counter that only ever
// existed inside a scope is gone with it: the caller's state must not hold one afterwards.
#[derive(Clone, Debug)]
enum CTree {
    Leaf,
    Scope(Vec<CTree>),
    Twice(Vec<CTree>),
}

#[derive(Clone, Serialize)]
struct EvalLeaf;
impl Component<TagP> for EvalLeaf {
    fn init(&self, _: &TagP, state: &mut State<TagP>) -> ExecResult<()> {
        state.insert(Evaluations(0));
        Ok(())
    }
    fn execute(&self, _: &TagP, state: &mut State<TagP>) -> ExecResult<()> {
        *state.try_borrow_value_mut::<Evaluations>()? += 1;
        Ok(())
    }
}

fn ev_build(items: &[CTree], direct: bool) -> Vec<Box<dyn Component<TagP>>> {
    items
        .iter()
        .map(|e| -> Box<dyn Component<TagP>> {
            match e {
                CTree::Leaf => Box::new(EvalLeaf),
                CTree::Scope(b) if direct => Scope::new(ev_build(b, direct)),
                CTree::Scope(b) => Configuration::builder().scope_(|bb| ev_build(b, direct).into_iter().fold(bb, |bb, c| bb.do_(c))).build().into_inner(),
                CTree::Twice(b) => Loop::new(mahf::conditions::LessThanN::iterations(2), ev_build(b, direct)),
            }
        })
        .collect()
}

/// init of a level: a leaf at this level (not inside a nested scope) makes the level's counter Some(0)
fn ev_init(items: &[CTree], top: &mut Option<u32>) {
    for e in items {
        match e {
            CTree::Leaf => *top = Some(0),
            CTree::Scope(_) => {}
            CTree::Twice(b) => ev_init(b, top),
        }
    }
}

fn ev_exec(items: &[CTree], stack: &mut Vec<Option<u32>>, iters: &mut Vec<u32>) {
    for e in items {
        match e {
            CTree::Leaf => {
                if let Some(c) = stack.iter_mut().rev().flatten().next() {
                    *c += 1;
                }
            }
            // loops of one scope level share that level's pass counter (every `Loop::init` of the level resets it before
            // execution begins, every completed pass of any of them counts): "fewer than 2 iterations" is tested against it
            CTree::Twice(b) => {
                while *iters.last().unwrap() < 2 {
                    ev_exec(b, stack, iters);
                    *iters.last_mut().unwrap() += 1;
                }
            }
            CTree::Scope(b) => {
                let mut top = None;
                ev_init(b, &mut top);
                stack.push(top);
                iters.push(0);
                ev_exec(b, stack, iters);
                iters.pop();
                if let Some(inner) = stack.pop().unwrap() {
                    if let Some(c) = stack.iter_mut().rev().flatten().next() {
                        *c += inner;
                    }
                }
            }
        }
    }
}

fn ev_shapes(budget: usize, depth: usize) -> Vec<Vec<CTree>> {
    // all sequences with exactly `budget` nodes
    if budget == 0 {
        return vec![vec![]];
    }
    let mut out = Vec::new();
    for first in 1..=budget {
        let mut heads: Vec<CTree> = Vec::new();
        if first == 1 {
            heads.push(CTree::Leaf);
        }
        if first >= 2 && depth < 3 {
            for b in ev_shapes(first - 1, depth + 1) {
                heads.push(CTree::Scope(b.clone()));
                heads.push(CTree::Twice(b));
            }
        }
        for h in heads {
            for rest in ev_shapes(budget - first, depth) {
                let mut v = vec![h.clone()];
                v.extend(rest);
                out.push(v);
            }
        }
    }
    out
}

fn scope_counter_section(rep: &Reporter) {
    let max = rep.tier.pick(6usize, 8usize);
    let mut n = 0u64;
    for k in 1..=max {
        for shape in ev_shapes(k, 0) {
            for prefilled in [None, Some(5u32)] {
                for direct in [true, false] {
                    rep.case();
                    n += 1;
                    rep.nontrivial(hash_of(&("scope-counter", format!("{shape:?}"), prefilled, direct)));
                    let mut st = State::<TagP>::new();
                    st.insert(mahf::state::Random::new(1));
                    if let Some(c) = prefilled {
                        st.insert(Evaluations(c));
                    }
                    let cfg = Configuration::new(Block::new(ev_build(&shape, direct)));
                    let r = mv::catch(|| cfg.run(&TagP, &mut st).map_err(|e| format!("{e:#}")));
                    let mut stack = vec![prefilled];
                    ev_init(&shape, &mut stack[0]);
                    // a leaf that finds no counter at all fails (a shape whose root has a loop-less, scope-less leaf never does)
                    ev_exec(&shape, &mut stack, &mut vec![0]);
                    let want = stack[0];
                    let got = st.try_get_value::<Evaluations>().ok();
                    if !matches!(r, Ok(Ok(()))) {
                        rep.violation("scope-counter:run-fails", json!({"tree": format!("{shape:?}"), "caller_counter_before": prefilled, "built_with": if direct { "Scope::new" } else { "scope_" }, "result": format!("{r:?}")}));
                    } else if got != want {
                        let kind = match (got, want) {
                            (Some(_), None) => "counter-created-inside-a-scope-survives-in-the-caller-state",
                            (None, Some(_)) => "caller-counter-lost",
                            _ => "inner-count-not-added-to-the-nearest-enclosing-counter-exactly-once",
                        };
                        rep.violation(&format!("scope-counter:{kind}"), json!({"tree": format!("{shape:?}"), "caller_counter_before": prefilled, "built_with": if direct { "Scope::new" } else { "scope_" }, "caller_counter_after": got, "reference": want}));
                    }
                }
            }
        }
    }
    rep.count("scope_counter_cases", n);
}

fn main() {
    let rep = Reporter::from_args("C03");
    rep.rule("configurations over {probe leaf (9 kinds: remove a marker in execute, state created lazily through the entry API in execute, plain, create marker in init, require marker, bump outer counter - through try_borrow_value_mut or through the entry API, shadow the caller's sentinel), sequence, while, if, if/else, scope; the scripted condition of a node plain or wrapped as !!c, c & traced-true-operand, c | traced-false-operand (constructors and operators), every operand traced and fault-injectable: all operands initialised, required and evaluated on every test, no short-circuit} built with the builder DSL and with Block/Loop/Branch/Scope::new, run with Configuration::run on a caller state holding sentinels; scripted condition outcomes (all sequences up to length 3 per condition) and every single fault point (node x phase x 1st/2nd call); the recorded (phase,node) trace, the returned result and the caller's final state are compared with a reference interpreter written from the statement. Exhaustive over all trees up to the stated node count; plus seeded random trees up to 40 nodes, depth <= 7; plus all trees up to 6 (thorough: 8) nodes over {counting leaf (init: fresh evaluation counter, execute: innermost counter += 1), two-pass loop, scope} on a caller state with and without a counter: the caller's counter afterwards equals the reference (inner counts go to the nearest enclosing counter once, a counter that only existed inside a scope is gone). distinct_nontrivial = distinct (tree, scripts, fault) cases that failed, entered a scope, or had a zero-iteration loop");
    rep.assume("Script conditions keep their position harness-side and reset it in init(); Iterations is only compared when no scope level holds two loops");
    let max_nodes = rep.tier.pick(3usize, 4usize);
    rep.set("exhaustive_max_nodes", json!(max_nodes));
    let all = all_scripts(3);
    let mut memo = vec![None; max_nodes + 2];
    let mut smemo = vec![None; max_nodes + 2];
    let mut shapes: Vec<Vec<Item>> = Vec::new();
    for k in 1..=max_nodes {
        shapes.extend(seqs(k, &mut memo, &mut smemo));
    }
    rep.count("exhaustive_tree_shapes", shapes.len() as u64);
    rep.sample(json!({"tree": format!("{:?}", shapes[shapes.len() / 2]), "scripts": "[[true,false,true]] per condition", "fault": "Fault{id:2, phase:Exec, nth:2}"}));
    let cap = rep.tier.pick(64usize, 48usize);
    let n_shapes = shapes.len();
    std::thread::scope(|s| {
        for (w, range) in mv::shards(n_shapes, num_workers() * 4).into_iter().enumerate() {
            let shapes = &shapes;
            let all = &all;
            let rep = &rep;
            s.spawn(move || {
                let mut rng = SplitMix64::new(rep.seed).fork(0xC03 + w as u64);
                let mut local = Local::new();
                for i in range {
                    let shape = &shapes[i];
                    for variant in 0..3 {
                        let p = prepare(shape, variant, None);
                        let sets = script_sets_for(p.n_conds, all, &mut rng, cap);
                        check_program(rep, &mut local, &p, &sets, &|| format!("{:?} kinds#{variant}", shape));
                    }
                }
                rep.merge(local);
            });
        }
    });
    // random larger trees
    let n_random = rep.tier.pick(1500usize, 30000usize);
    std::thread::scope(|s| {
        for (w, range) in mv::shards(n_random, num_workers()).into_iter().enumerate() {
            let all = &all;
            let rep = &rep;
            s.spawn(move || {
                let mut rng = SplitMix64::new(rep.seed).fork(0xC03_0000 + w as u64);
                let mut local = Local::new();
                for _ in range {
                    let mut budget = 4 + rng.usize(37);
                    let shape = random_shape(&mut rng, &mut budget, 0);
                    let kinds: Vec<LeafKind> = (0..9).map(|_| *rng.pick(&KINDS)).collect();
                    let p = prepare(&shape, 0, Some(kinds));
                    let sets = script_sets_for(p.n_conds, all, &mut rng, 3);
                    // sample faults instead of all of them for big trees
                    let mut faults = faults_for(&p);
                    rng.shuffle(&mut faults[1..]);
                    faults.truncate(12);
                    for scripts in &sets {
                        for fault in &faults {
                            local.case();
                            let mut stats = CaseStats::default();
                            let use_dsl = rng.bool();
                            let v = run_case(&p, scripts, *fault, use_dsl, &mut stats);
                            local.nontrivial(hash_of(&(format!("{shape:?}"), scripts, fault.map(|f| (f.id, f.phase as u8, f.nth)))));
                            local.count("random_tree_cases", 1);
                            if stats.fault_in_scope {
                                local.count("cases_with_fault_inside_a_scope", 1);
                            }
                            if let Some((sig, msg)) = v {
                                rep.violation(&sig, json!({"tree": format!("{shape:?}"), "scripts_per_condition": scripts, "fault": fault.map(|f| format!("{f:?}")), "observed": msg}));
                            }
                        }
                    }
                }
                rep.merge(local);
            });
        }
    });
    scope_counter_section(&rep);
    rep.exhaustive(true);
    rep.finish();
}
