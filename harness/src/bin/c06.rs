//! C06 — evaluation steps evaluate everyone once; the evaluation count is exact.
use std::{collections::BTreeMap, sync::Mutex};

use mahf::{
    components::{initialization, mutation, replacement, selection},
    conditions::{EveryN, LessThanN},
    identifier::{Global, A, B},
    problems::{evaluate, KnownOptimumProblem},
    state::common::Evaluations,
    verif::StepEvent,
    Component, Configuration, State,
};
use mv::{
    hash_of, num_workers,
    observe::{install, snapshot_stack},
    problems::*,
    templates::{self, CaseMeta, TemplateVisitor},
    Reporter, SplitMix64,
};
use serde_json::json;

#[derive(Default)]
struct Rec {
    /// open evaluation steps (nested blocks never nest evaluators, but scopes may): snapshot before
    before: Vec<(Vec<Vec<(u64, Option<f64>)>>, Option<u32>, usize)>,
    steps: u64,
    individuals: u64,
    violations: Vec<(String, String)>,
    exec_events: u64,
    orders: std::collections::HashSet<u64>,
    threads: std::collections::HashSet<u64>,
    pass_calls_start: Vec<u64>,
    max_pass_cost: u64,
    sizes: std::collections::HashSet<usize>,
    reordered_steps: u64,
    /// objective calls made by evaluation steps running inside a scope (child state)
    calls_in_scoped_steps: u64,
    scoped_steps: u64,
}

fn observe<P: Instrumented>(rec: &Mutex<Rec>, ev: StepEvent<'_, P>, p: &P, state: &State<P>) {
    let mut r = rec.lock().unwrap();
    match ev {
        StepEvent::BlockChild { before, component, .. } => {
            if before {
                r.exec_events += 1;
            }
            if mv::sniff::name_of(component) != "PopulationEvaluator" {
                return;
            }
            let snap = snapshot_stack(state, |s| P::sol_hash(s)).unwrap_or_default();
            let evals = state.try_get_value::<Evaluations>().ok();
            let log_len = p.instr().log_len();
            if before {
                r.before.push((snap, evals, log_len));
                return;
            }
            let Some((snap0, evals0, log0)) = r.before.pop() else { return };
            r.steps += 1;
            let mut v = |sig: &str, msg: String| r.violations.push((sig.to_string(), msg));
            if snap.len() != snap0.len() {
                v("step:stack-height-changed", format!("stack height {} -> {}", snap0.len(), snap.len()));
                return;
            }
            // deeper populations untouched
            for d in 1..snap.len() {
                if snap[d] != snap0[d] {
                    v("step:other-population-touched", format!("population at depth {d} changed during an evaluation step"));
                }
            }
            let n = snap0.first().map(|p| p.len()).unwrap_or(0);
            let delta_calls = p.instr().log_len() - log0;
            let delta_evals = match (evals0, evals) {
                (Some(a), Some(b)) => Some(b as i64 - a as i64),
                _ => None,
            };
            if let (Some(top0), Some(top)) = (snap0.first(), snap.first()) {
                if top.len() != top0.len() || top.iter().zip(top0.iter()).any(|(a, b)| a.0 != b.0) {
                    v("step:individuals-reordered-or-changed", format!("population before (solution hashes) {:?} after {:?}", top0.iter().map(|x| x.0).collect::<Vec<_>>(), top.iter().map(|x| x.0).collect::<Vec<_>>()));
                }
                if let Some(i) = top.iter().position(|x| x.1.is_none()) {
                    v("step:individual-left-unevaluated", format!("individual {i} of {} is unevaluated after the evaluation step", top.len()));
                }
            }
            // objective values belong to the solutions
            if let Ok(pops) = state.try_borrow::<mahf::state::common::Populations<P>>() {
                if let Some(cur) = pops.get_current() {
                    for (i, ind) in cur.iter().enumerate() {
                        if let Some(o) = ind.get_objective() {
                            let want = p.pure(ind.solution());
                            if o.value().to_bits() != want.to_bits() {
                                v("step:wrong-objective-value", format!("individual {i}: objective {} but f(solution) = {want}", o.value()));
                            }
                        }
                    }
                }
            }
            if delta_evals != Some(n as i64) {
                v("step:evaluation-counter-delta", format!("population of {n}: counter advanced by {delta_evals:?}"));
            }
            if delta_calls != n {
                v("step:objective-call-count", format!("population of {n}: {delta_calls} objective calls during the step"));
            }
            // each individual exactly once: multiset of evaluated solutions == population's
            let log = p.instr().log_from(log0);
            let mut a: Vec<u64> = log.iter().map(|c| c.sol_hash).collect();
            let mut b: Vec<u64> = snap0.first().map(|t| t.iter().map(|x| x.0).collect()).unwrap_or_default();
            let order_key = {
                // rank permutation of the completion order relative to the population order
                let mut used = vec![false; b.len()];
                let mut perm = Vec::new();
                for h in &a {
                    if let Some(i) = (0..b.len()).find(|&i| !used[i] && b[i] == *h) {
                        used[i] = true;
                        perm.push(i);
                    }
                }
                perm
            };
            if order_key.windows(2).any(|w| w[0] > w[1]) {
                r.reordered_steps += 1;
            }
            r.orders.insert(hash_of(&order_key));
            for c in &log {
                r.threads.insert(c.thread);
            }
            a.sort();
            b.sort();
            if a != b {
                r.violations.push(("step:not-each-individual-exactly-once".into(), format!("population of {n}: the multiset of solutions evaluated during the step differs from the population's")));
            }
            r.individuals += n as u64;
            r.sizes.insert(n);
            if mv::observe::scope_depth(state) > 1 {
                r.scoped_steps += 1;
                r.calls_in_scoped_steps += delta_calls as u64;
            }
        }
        StepEvent::LoopPass { start, .. } => {
            let calls = p.instr().calls();
            if start {
                r.pass_calls_start.push(calls);
            } else if let Some(c0) = r.pass_calls_start.pop() {
                r.max_pass_cost = r.max_pass_cost.max(calls - c0);
            }
        }
    }
}

fn fold(rep: &Reporter, rec: &Rec, what: &str, label: &str, detail: serde_json::Value) {
    rep.count("evaluation_steps_observed", rec.steps);
    rep.count("individuals_through_evaluation_steps", rec.individuals);
    rep.count("evaluation_steps_with_out_of_order_completion", rec.reordered_steps);
    for o in &rec.orders {
        rep.distinct("completion_orders", *o);
    }
    for t in &rec.threads {
        rep.distinct("threads_calling_the_objective", *t);
    }
    for s in &rec.sizes {
        rep.distinct("population_sizes", *s as u64);
    }
    for (sig, msg) in rec.violations.iter().take(4) {
        rep.violation(&format!("{what}:{sig}"), json!({"run": label, "detail": detail, "observed": msg}));
    }
}

struct V<'r> {
    rep: &'r Reporter,
    pools: &'r [rayon::ThreadPool],
}

impl<'r> TemplateVisitor for V<'r> {
    fn visit<P>(&mut self, meta: &CaseMeta, cfg: Configuration<P>, problem: &P)
    where
        P: Instrumented + KnownOptimumProblem,
    {
        let rep = self.rep;
        let rec = Mutex::new(Rec::default());
        let pool = &self.pools[(meta.seed % self.pools.len() as u64) as usize];
        if meta.parallel {
            problem.instr().set_perturb(meta.seed | 1);
        }
        let res = mv::observe::run_observed(&cfg, problem, meta.seed, meta.parallel, Some(pool), |ev, p, s| observe(&rec, ev, p, s));
        rep.case();
        rep.nontrivial(hash_of(&(meta.tmpl, &meta.params, &meta.instance, meta.n, meta.seed, meta.parallel)));
        rep.distinct("templates", hash_of(&meta.tmpl));
        let r = rec.lock().unwrap();
        let label = format!("{:?}", meta.tmpl);
        fold(rep, &r, "template", &label, json!(meta));
        if let Ok(Ok(state)) = &res {
            let reported = state.evaluations() as u64;
            let calls = problem.instr().calls();
            if reported != calls {
                rep.violation(&format!("run:{label}:reported-evaluations-differ-from-objective-calls"), json!({"meta": meta, "reported": reported, "objective_calls": calls}));
            }
        }
        if rep.want_sample() && r.steps > 3 && meta.parallel {
            rep.sample(json!({"meta": meta, "evaluation_steps": r.steps, "individuals": r.individuals, "distinct_completion_orders": r.orders.len(), "threads": r.threads.len()}));
        }
    }
}

// ---- generated configurations ---------------------------------------------------------------
#[derive(Clone, Copy, Debug, PartialEq, Eq, Hash)]
enum Id {
    G,
    A,
    B,
}

fn eval_step(id: Id) -> Box<dyn Component<Real>> {
    match id {
        Id::G => mahf::components::evaluation::PopulationEvaluator::new(),
        Id::A => mahf::components::evaluation::PopulationEvaluator::<A>::new_with(),
        Id::B => mahf::components::evaluation::PopulationEvaluator::<B>::new_with(),
    }
}

fn gen_items(rng: &mut SplitMix64, depth: usize, scoped: bool, used: &mut Vec<Id>, used_top: &mut Vec<Id>, desc: &mut Vec<String>, budget: &mut usize) -> Vec<Box<dyn Component<Real>>> {
    let mut out: Vec<Box<dyn Component<Real>>> = Vec::new();
    let n = 1 + rng.usize(4);
    for _ in 0..n {
        if *budget == 0 {
            break;
        }
        *budget -= 1;
        match rng.below(if depth >= 3 { 4 } else { 9 }) {
            0 | 1 => {
                let id = *rng.pick(&[Id::G, Id::G, Id::A, Id::B]);
                used.push(id);
                if !scoped {
                    used_top.push(id);
                }
                desc.push(format!("evaluate<{id:?}>"));
                out.push(eval_step(id));
            }
            2 => {
                desc.push("NormalMutation(0.2)".into());
                out.push(mutation::NormalMutation::new_dev(0.2));
            }
            3 => {
                desc.push("[All; mutate; evaluate<G>; Generational]".into());
                used.push(Id::G);
                if !scoped {
                    used_top.push(Id::G);
                }
                out.push(selection::All::new());
                out.push(mutation::NormalMutation::new_dev(0.1));
                out.push(eval_step(Id::G));
                out.push(replacement::Generational::new(1));
            }
            4 => {
                desc.push("scope{".into());
                let inner = gen_items(rng, depth + 1, true, used, used_top, desc, budget);
                desc.push("}".into());
                out.push(mahf::components::Scope::new(inner));
            }
            5 => {
                let k = 1 + rng.below(3) as u32;
                desc.push(format!("while iterations<{k} {{"));
                let inner = gen_items(rng, depth + 1, true, used, used_top, desc, budget);
                desc.push("}".into());
                // a loop in its own scope so that its iteration counter is its own
                out.push(mahf::components::Scope::new(vec![mahf::components::Loop::new(LessThanN::iterations(k), inner)]));
            }
            6 => {
                desc.push("if every-2nd-iteration {".into());
                let inner = gen_items(rng, depth + 1, true, used, used_top, desc, budget);
                desc.push("}".into());
                out.push(mahf::components::Scope::new(vec![mahf::components::Loop::new(
                    LessThanN::iterations(2),
                    vec![mahf::components::Branch::new(EveryN::iterations(2), inner)],
                )]));
            }
            7 => {
                // if/else directly in the enclosing block (no scope): identifiers used in either arm are
                // requirements of the enclosing level; the condition never / always fires
                let p = if rng.bool() { 0.0 } else { 1.0 };
                desc.push(format!("if chance({p}) {{"));
                let a = gen_items(rng, depth + 1, scoped, used, used_top, desc, budget);
                desc.push("} else {".into());
                let b = gen_items(rng, depth + 1, scoped, used, used_top, desc, budget);
                desc.push("}".into());
                out.push(mahf::components::Branch::new_with_else(mahf::conditions::RandomChance::new(p), a, b));
            }
            _ => {
                desc.push("ClearPopulation-or-noop".into());
                if rng.chance(0.3) {
                    out.push(mahf::components::utils::populations::ClearPopulation::new());
                } else {
                    out.push(mahf::components::utils::Noop::new());
                }
            }
        }
    }
    out
}

fn generated(rep: &Reporter, n_cfg: usize, pools: &[rayon::ThreadPool]) {
    std::thread::scope(|s| {
        for (w, range) in mv::shards(n_cfg, num_workers()).into_iter().enumerate() {
            s.spawn(move || {
                let mut rng = SplitMix64::new(rep.seed).fork(0xC06_0000 + w as u64);
                for _ in range {
                    let pop = *rng.pick(&[0u32, 1, 2, 3, 5, 8, 16, 33, 64]);
                    let mut used = vec![Id::G];
                    let mut desc = vec![format!("RandomSpread({pop}); evaluate<G>;")];
                    let mut budget = 10;
                    let mut used_top = vec![Id::G];
                    let items = gen_items(&mut rng, 0, false, &mut used, &mut used_top, &mut desc, &mut budget);
                    let cfg = Configuration::builder().do_(initialization::RandomSpread::new(pop)).evaluate().do_many_(items).build();
                    // registered evaluators
                    let mut registered: Vec<(Id, bool)> = Vec::new();
                    for id in [Id::G, Id::A, Id::B] {
                        let needed = used.contains(&id);
                        let register = if needed { !rng.chance(0.15) } else { rng.chance(0.3) };
                        if register {
                            registered.push((id, rng.chance(0.5)));
                        }
                    }
                    let missing: Vec<Id> = used.iter().copied().filter(|u| !registered.iter().any(|r| r.0 == *u)).collect();
                    // an identifier used outside every scope is checked before anything executes; one used
                    // only inside a scope body is checked when that scope is entered
                    let missing_top = used_top.iter().any(|u| !registered.iter().any(|r| r.0 == *u));
                    let problem = templates::real_instance(1 + rng.usize(5));
                    let nonce = rng.next_u64() | 1;
                    problem.instr.set_perturb(nonce);
                    let pool = &pools[rng.usize(pools.len())];
                    let seed = rng.below(1 << 30);
                    let rec = Mutex::new(Rec::default());
                    let res = pool.install(|| {
                        mv::catch(|| {
                            cfg.optimize_with(&problem, |state| {
                                for (id, par) in &registered {
                                    match (id, par) {
                                        (Id::G, false) => state.insert_evaluator(evaluate::Sequential::new()),
                                        (Id::G, true) => state.insert_evaluator(evaluate::Parallel::new()),
                                        (Id::A, false) => state.insert_evaluator_as::<A>(evaluate::Sequential::new()),
                                        (Id::A, true) => state.insert_evaluator_as::<A>(evaluate::Parallel::new()),
                                        (Id::B, false) => state.insert_evaluator_as::<B>(evaluate::Sequential::new()),
                                        (Id::B, true) => state.insert_evaluator_as::<B>(evaluate::Parallel::new()),
                                    }
                                }
                                state.insert(mahf::state::Random::new(seed));
                                install(state, |ev, p, s| observe(&rec, ev, p, s));
                                Ok(())
                            })
                            .map(|s| s.evaluations() as u64)
                            .map_err(|e| format!("{e:#}"))
                        })
                    });
                    rep.case();
                    rep.count("generated_configurations", 1);
                    let label = desc.join(" ");
                    let detail = json!({"population": pop, "registered": format!("{registered:?}"), "pool_threads": pool.current_num_threads(), "seed": seed});
                    rep.nontrivial(hash_of(&(&label, pop, format!("{registered:?}"), pool.current_num_threads())));
                    let r = rec.lock().unwrap();
                    fold(rep, &r, "generated", &label, detail.clone());
                    match (&res, missing.is_empty()) {
                        (Ok(Ok(reported)), true) => {
                            let calls = problem.instr.calls();
                            if *reported != calls {
                                let sig = if r.scoped_steps > 0 && *reported + r.calls_in_scoped_steps == calls {
                                    "run:evaluations-made-by-evaluation-steps-inside-a-scope-are-missing-from-the-reported-count"
                                } else {
                                    "generated:reported-evaluations-differ-from-objective-calls"
                                };
                                rep.violation(sig, json!({"run": label, "detail": detail, "reported": reported, "objective_calls": calls, "calls_made_by_steps_inside_scopes": r.calls_in_scoped_steps}));
                            }
                        }
                        (Ok(Err(_)), false) => {
                            rep.count("runs_rejected_for_missing_evaluator", 1);
                            if missing_top && (r.exec_events > 0 || problem.instr.calls() > 0) {
                                rep.violation("generated:missing-evaluator-detected-after-execution-started", json!({"run": label, "detail": detail, "missing": format!("{missing:?}"), "components_executed": r.exec_events, "objective_calls": problem.instr.calls()}));
                            }
                        }
                        (Ok(Ok(_)), false) if !missing_top => {
                            // the identifier is only used inside scope bodies, which are checked when (and if)
                            // they are entered: a scope in a branch that is never taken is never checked
                            rep.count("runs_with_a_missing_evaluator_only_in_unentered_scopes", 1);
                        }
                        (Ok(Ok(_)), false) => {
                            rep.violation("generated:missing-evaluator-not-reported", json!({"run": label, "detail": detail, "missing": format!("{missing:?}"), "configuration": serde_json::to_value(cfg.heuristic()).unwrap_or_default()}));
                        }
                        (Ok(Err(e)), true) => {
                            rep.violation("generated:run-failed-though-all-evaluators-registered", json!({"run": label, "detail": detail, "error": e}));
                        }
                        (Err(p), _) => {
                            rep.violation("generated:panic", json!({"run": label, "detail": detail, "panic": p, "missing": format!("{missing:?}")}));
                        }
                    }
                    if rep.want_sample() && r.steps >= 4 {
                        rep.sample(json!({"configuration": label, "detail": detail, "evaluation_steps": r.steps}));
                    }
                }
            });
        }
    });
}

/// Evaluation budgets: final count >= n and overshoot < one pass.
fn budgets(rep: &Reporter, n_runs: usize) {
    let mut rng = SplitMix64::new(rep.seed).fork(0xC06_B);
    for _ in 0..n_runs {
        let budget = 1 + rng.below(200) as u32;
        let seed = rng.below(1 << 30);
        let which = rng.below(4);
        let problem = templates::real_instance(rng.usize(6));
        let rec = Mutex::new(Rec::default());
        let cond = LessThanN::evaluations(budget);
        let (cfg, name) = match which {
            0 => (mahf::heuristics::es::real_mu_plus_lambda_es::<Real, ()>(mahf::heuristics::es::RealProblemParameters { population_size: 3, lambda: 1 + rng.below(9) as u32, deviation: 0.1 }, cond), "Es"),
            1 => (mahf::heuristics::ga::real_ga(mahf::heuristics::ga::RealProblemParameters { population_size: 2 + rng.below(9) as u32, tournament_size: 2, pm: 1.0, deviation: 0.1, pc: 0.5 }, cond), "GaReal"),
            2 => (mahf::heuristics::fa::real_fa(mahf::heuristics::fa::RealProblemParameters { pop_size: 2 + rng.below(5) as u32, alpha: 0.3, beta: 1.0, gamma: 1.0, delta: 0.9 }, cond), "Fa"),
            _ => (
                mahf::heuristics::ils::real_ils(
                    mahf::heuristics::ils::RealProblemParameters { ls_params: mahf::heuristics::ls::RealProblemParameters { n_neighbors: 1 + rng.below(3) as u32, deviation: 0.1 }, ls_condition: LessThanN::iterations(1 + rng.below(3) as u32) },
                    cond,
                ),
                "IlsReal",
            ),
        };
        let cfg = cfg.unwrap();
        let res = mv::observe::run_observed(&cfg, &problem, seed, false, None, |ev, p, s| observe(&rec, ev, p, s));
        rep.case();
        rep.count("budget_runs", 1);
        rep.nontrivial(hash_of(&("budget", name, budget, seed)));
        let r = rec.lock().unwrap();
        fold(rep, &r, "budget", name, json!({"budget": budget, "seed": seed}));
        if let Ok(Ok(state)) = res {
            let reported = state.evaluations() as u64;
            let calls = problem.instr.calls();
            if reported != calls {
                rep.violation(&format!("run:{name}:reported-evaluations-differ-from-objective-calls"), json!({"budget": budget, "seed": seed, "reported": reported, "objective_calls": calls}));
            } else if reported < budget as u64 || reported - budget as u64 >= r.max_pass_cost.max(1) {
                // the initial evaluation may itself exceed a tiny budget: then no pass runs at all
                let no_pass = r.max_pass_cost == 0;
                if !(no_pass && reported >= budget as u64) {
                    rep.violation(&format!("budget:{name}:overshoot-not-less-than-one-pass"), json!({"budget": budget, "seed": seed, "final_evaluations": reported, "largest_pass_cost_observed": r.max_pass_cost}));
                }
            }
        }
    }
}

/// `Configuration::optimize` (its own state set-up: Global evaluator, unseeded generator) and an
/// evaluator built with `Default`: reported evaluations must equal objective calls there too.
fn optimize_path(rep: &Reporter) {
    use mahf::heuristics::{es, fa, ga, ils, ls};
    use mahf::state::common::Evaluator;
    for k in 0..rep.tier.pick(40u64, 2000u64) {
        let problem = templates::real_instance((k % 6) as usize);
        let n = 1 + (k % 7) as u32;
        let (cfg, name) = match k % 4 {
            0 => (ga::real_ga(ga::RealProblemParameters { population_size: 5, tournament_size: 2, pm: 1.0, deviation: 0.1, pc: 0.5 }, LessThanN::iterations(n)), "GaReal"),
            1 => (es::real_mu_plus_lambda_es::<Real, ()>(es::RealProblemParameters { population_size: 3, lambda: 4, deviation: 0.1 }, LessThanN::iterations(n)), "Es"),
            2 => (fa::real_fa(fa::RealProblemParameters { pop_size: 4, alpha: 0.3, beta: 1.0, gamma: 1.0, delta: 0.9 }, LessThanN::iterations(n)), "Fa"),
            _ => (ils::real_ils(ils::RealProblemParameters { ls_params: ls::RealProblemParameters { n_neighbors: 2, deviation: 0.1 }, ls_condition: LessThanN::iterations(2) }, LessThanN::iterations(n)), "IlsReal"),
        };
        let cfg = cfg.unwrap();
        for variant in 0..3 {
            problem.instr.reset();
            rep.case();
            rep.nontrivial(hash_of(&("optimize", name, k, variant)));
            let r = mv::catch(|| {
                match variant {
                    0 => cfg.optimize(&problem, evaluate::Sequential::new()),
                    1 => cfg.optimize(&problem, evaluate::Parallel::new()),
                    _ => cfg.optimize_with(&problem, |s| {
                        s.insert(Evaluator::<Real, Global>::default());
                        Ok(())
                    }),
                }
                .map(|s| (s.evaluations() as u64, s.iterations()))
                .map_err(|e| format!("{e:#}"))
            });
            rep.count("optimize_entry_point_runs", 1);
            match r {
                Ok(Ok((reported, iters))) => {
                    let entry = ["optimize(Sequential)", "optimize(Parallel)", "optimize_with + Evaluator::default()"][variant];
                    if reported != problem.instr.calls() || iters != n {
                        rep.violation(&format!("optimize:{name}:reported-evaluations-or-iterations-wrong"), json!({"entry": entry, "reported": reported, "objective_calls": problem.instr.calls(), "iterations": iters, "requested": n}));
                    }
                }
                other => rep.violation(&format!("optimize:{name}:run-failed"), json!({"variant": variant, "result": format!("{other:?}")})),
            }
        }
    }
}

fn main() {
    let rep = Reporter::from_args("C06");
    rep.fold_aux();
    rep.rule("every PopulationEvaluator child observed through the step-observer hook (snapshot of the whole population stack, evaluation counter and objective call log before/after) in (1) runs of all 21 templates over the parameter catalogue with sequential and parallel evaluators in rayon pools of 1/2/3/4/7/16 threads with perturbed objective latency, (2) generated configurations mixing evaluation steps under identifiers Global/A/B (sequential or parallel, some deliberately not registered), population sizes 0..64, steps inside scopes, loops and branches, (3) evaluation-budget runs; per step: same individuals, order and solutions, all evaluated with f_pure, each solution evaluated exactly once (multiset of the call log), counter delta = population size = call delta; per run: reported evaluations = objective calls; missing identifier => error before anything executes. distinct_nontrivial = distinct runs / configurations");
    rep.assume("objective call log of the harness problems is complete and pure; completion order diversity is what the latency perturbation produced (reported, not exhaustive)");
    let pools: Vec<rayon::ThreadPool> = [1usize, 2, 3, 4, 7, 16].iter().map(|&n| rayon::ThreadPoolBuilder::new().num_threads(n).build().unwrap()).collect();
    let seeds = rep.tier.pick(8usize, 120usize);
    let cases = templates::cases(rep.quick(), rep.seed, seeds);
    let n = cases.len();
    std::thread::scope(|s| {
        for range in mv::shards(n, num_workers().min(8)) {
            let cases = &cases;
            let rep = &rep;
            let pools = &pools;
            s.spawn(move || {
                let mut v = V { rep, pools };
                for i in range {
                    let mut c = cases[i];
                    c.parallel = i % 2 == 0;
                    templates::dispatch(&c, &mut v, &mut |_m, _e| {});
                }
            });
        }
    });
    rep.count("template_runs", n as u64);
    generated(&rep, rep.tier.pick(10_000, 400_000), &pools);
    budgets(&rep, rep.tier.pick(1_000, 30_000));
    optimize_path(&rep);
    // a second run on the state a first run left behind: the counter reported after it is the number of objective
    // calls made during it (every run starts counting at zero)
    {
        let mut rng = mv::SplitMix64::new(rep.seed).fork(0xC06_7);
        for k in 0..rep.tier.pick(300usize, 10_000usize) {
            let o = mv::warm::warm_restart(&mut rng, k);
            rep.case();
            rep.nontrivial(hash_of(&("warm-restart", k)));
            if o.failed.is_some() {
                continue;
            }
            rep.count("second_runs_on_a_reused_state", 1);
            if o.second_run_reported_evaluations as u64 != o.second_run_objective_calls {
                rep.violation(
                    "second-run-on-a-reused-state:reported-evaluations-differ-from-objective-calls",
                    json!({"heuristic": o.variant, "seed": o.seed, "reported_evaluations_after_the_second_run": o.second_run_reported_evaluations, "objective_calls_during_the_second_run": o.second_run_objective_calls}),
                );
            }
        }
    }
    // an evaluation step executed directly while its evaluator is missing fails and counts nothing; once the
    // evaluator is there the same step on the same state counts exactly the population
    {
        use mahf::{components::evaluation::PopulationEvaluator, identifier, problems::evaluate::Sequential, state::common::Populations, Component};
        for n in [0usize, 1, 5] {
            let problem = Real::new(2, -1.0, 1.0, RealFn::Sphere);
            let mut st = mahf::State::<Real>::new();
            let mut pops = Populations::<Real>::new();
            pops.push((0..n).map(|i| mahf::Individual::new_unevaluated(vec![i as f64 * 0.1, 0.0])).collect());
            st.insert(pops);
            st.insert_evaluator_as::<identifier::B>(Sequential::<Real>::new());
            let step = PopulationEvaluator::<identifier::A>::new_with::<Real>();
            let _ = step.init(&problem, &mut st);
            problem.instr().reset();
            let r1 = mv::catch(|| step.execute(&problem, &mut st).map_err(|e| e.to_string()));
            rep.case();
            rep.nontrivial(hash_of(&("missing-evaluator-at-execute", n)));
            // (what happens to the population of a step that fails for lack of its evaluator is not judged: the statement
            // has such runs fail before anything executes; only the counter and the objective calls are)
            let after_failure = (st.evaluations(), problem.instr().calls());
            if !matches!(r1, Ok(Err(_))) || after_failure != (0, 0) {
                rep.violation("missing-evaluator-at-execute:something-was-counted-or-evaluated", json!({"population": n, "result": format!("{r1:?}"), "(evaluations, objective calls) after the failed step": format!("{after_failure:?}")}));
                continue;
            }
            if st.populations().len() == 0 {
                st.populations_mut().push((0..n).map(|i| mahf::Individual::new_unevaluated(vec![i as f64 * 0.1, 0.0])).collect());
            }
            st.insert_evaluator_as::<identifier::A>(Sequential::<Real>::new());
            let r2 = mv::catch(|| step.execute(&problem, &mut st).map_err(|e| e.to_string()));
            let after = (st.evaluations() as usize, problem.instr().calls() as usize);
            if !matches!(r2, Ok(Ok(()))) || after != (n, n) {
                rep.violation("missing-evaluator-at-execute:count-wrong-after-the-evaluator-was-registered", json!({"population": n, "result": format!("{r2:?}"), "(evaluations, objective calls)": format!("{after:?}"), "expected": n}));
            }
        }
    }
    // a user-written evaluator that assigns objective values through `set_objective` (the documented way for custom
    // evaluators), as a second stage over individuals a first evaluator already evaluated: every individual ends up with
    // the value of the evaluator that ran last, and both steps are counted
    {
        use mahf::{components::evaluation::PopulationEvaluator, identifier, problems::evaluate::{Evaluate, Sequential}, state::common::Populations, Component};
        struct Doubling;
        impl Evaluate for Doubling {
            type Problem = Real;
            fn evaluate(&mut self, problem: &Real, _state: &mut mahf::State<Real>, individuals: &mut [mahf::Individual<Real>]) {
                for i in individuals {
                    let v = 2.0 * problem.f_pure(i.solution()) + 1.0;
                    i.set_objective(v.try_into().unwrap());
                }
            }
        }
        for n in [1usize, 4, 9] {
            let problem = Real::new(2, -1.0, 1.0, RealFn::Sphere);
            let mut st = mahf::State::<Real>::new();
            let mut pops = Populations::<Real>::new();
            pops.push((0..n).map(|i| mahf::Individual::new_unevaluated(vec![i as f64 * 0.1, 0.3])).collect());
            st.insert(pops);
            st.insert_evaluator(Sequential::<Real>::new());
            st.insert_evaluator_as::<identifier::A>(Doubling);
            let first = PopulationEvaluator::new::<Real>();
            let second = PopulationEvaluator::<identifier::A>::new_with::<Real>();
            rep.case();
            rep.nontrivial(hash_of(&("set_objective-evaluator", n)));
            let r = mv::catch(|| {
                first.init(&problem, &mut st).map_err(|e| e.to_string())?;
                first.execute(&problem, &mut st).map_err(|e| e.to_string())?;
                second.execute(&problem, &mut st).map_err(|e| e.to_string())
            });
            let ok = matches!(r, Ok(Ok(())))
                && st.evaluations() as usize == 2 * n
                && st.populations().current().iter().all(|i| i.get_objective().map(|o| o.value().to_bits()) == Some((2.0 * problem.f_pure(i.solution()) + 1.0).to_bits()));
            if !ok {
                rep.violation("custom-evaluator-through-set_objective:individuals-keep-an-older-value-or-count-wrong", json!({"population": n, "result": format!("{r:?}"), "evaluations": st.evaluations(), "objectives": st.populations().current().iter().map(|i| i.get_objective().map(|o| o.value())).collect::<Vec<_>>()}));
            }
        }
    }
    if rep.counter("evaluation_steps_observed") == 0 {
        rep.inconclusive("hook never reached: no evaluation step observed");
    }
    if rep.distinct_len("completion_orders") < 2 {
        rep.inconclusive("no schedule diversity: fewer than two distinct completion orders observed");
    }
    let _ = BTreeMap::<u8, u8>::new();
    rep.finish();
}
