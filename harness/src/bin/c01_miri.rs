//! C01 under Miri: a seeded random registry history (all operations, 5 types incl. the lifetime-bound one).
use mv::{c01model::{full_alphabet, run_history, Op}, SplitMix64};

fn main() {
    let mut seed = 1u64;
    let mut tier = "quick".to_string();
    let mut shard = 0u64;
    let mut it = std::env::args().skip(1);
    while let Some(a) = it.next() {
        match a.as_str() {
            "--seed" => seed = it.next().and_then(|s| s.parse::<i64>().ok()).unwrap_or(1) as u64,
            "--tier" => tier = it.next().unwrap_or_default(),
            "--shard" => shard = it.next().and_then(|s| s.parse().ok()).unwrap_or(0),
            "--shards" => { it.next(); }
            "--warmup" => return,
            _ => {}
        }
    }
    let (n_hist, len) = if tier == "thorough" { (2, 120) } else { (1, 60) };
    let alpha = full_alphabet(5);
    let mut rng = SplitMix64::new(seed).fork(0xC01_3141 + shard);
    let mut ops_total = 0u64;
    let mut shadow_ops = 0u64;
    let mut bad = 0;
    for _ in 0..n_hist {
        let ops: Vec<Op> = (0..len).map(|_| if rng.chance(0.08) { Op::Push } else { *rng.pick(&alpha) }).collect();
        match run_history(&ops, 5, 5) {
            Ok(st) => {
                ops_total += ops.len() as u64;
                shadow_ops += st.ops_under_shadowing;
            }
            Err((sig, msg, at)) => {
                println!("MONITOR-VIOLATION {sig}: {msg} at op {at} ({:?})", ops[at]);
                bad += 1;
            }
        }
    }
    println!("MIRI-SUMMARY {{\"registry_ops\": {ops_total}, \"ops_under_shadowing\": {shadow_ops}, \"histories\": {n_hist}}}");
    if bad > 0 {
        std::process::exit(1);
    }
}
