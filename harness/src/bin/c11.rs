//! C11 — selection copies members of the source population, in the requested number.
use mahf::{
    components::selection::{self, de as sde, functional as sf, iwo},
    state::{common::Populations, Random},
    Component, Individual, State,
};
use mv::{
    catch, hash_of,
    problems::{tagged, TagP},
    Reporter, SplitMix64,
};
use serde_json::json;

type T = (u32, u64);
fn val(t: &T) -> f64 {
    f64::from_bits(t.1)
}
fn view(i: &Individual<TagP>) -> T {
    (*i.solution(), i.get_objective().map(|o| o.value().to_bits()).unwrap_or(u64::MAX))
}
fn mk(t: &T) -> Individual<TagP> {
    tagged(t.0, Some(val(t)))
}

struct Outcome {
    result: Result<Result<(), String>, String>,
    stack: Vec<Vec<T>>, // bottom .. top
    /// the operator ran inside scopes opened over the state that holds the population stack
    scopes: usize,
    /// afterwards that state had no population stack any more
    stack_lost: bool,
}

fn apply(comp: &dyn Component<TagP>, below: &[T], source: &[T], seed: u64) -> Outcome {
    let mut st = State::<TagP>::new();
    let mut p = Populations::<TagP>::new();
    p.push(below.iter().map(mk).collect());
    p.push(source.iter().map(mk).collect());
    st.insert(p);
    st.insert(Random::new(seed));
    // by seed: executed on the state itself, or from inside one / two scopes opened over it (as in a Scope of a configuration):
    // the population stack stays where it is
    let scopes = (seed % 3) as usize;
    fn nested(comp: &dyn Component<TagP>, st: &mut State<TagP>, depth: usize) -> mahf::ExecResult<()> {
        if depth == 0 {
            comp.execute(&TagP, st)
        } else {
            st.with_inner_state(|inner| nested(comp, inner, depth - 1)).map(|_| ())
        }
    }
    let result = catch(|| nested(comp, &mut st, scopes).map_err(|e| format!("{e:#}")));
    let mut stack = Vec::new();
    let mut stack_lost = false;
    match st.try_borrow::<Populations<TagP>>() {
        Ok(pops) => {
            let mut d = 0;
            while let Some(pop) = pops.try_peek(d) {
                stack.push(pop.iter().map(view).collect());
                d += 1;
            }
        }
        Err(_) => stack_lost = true,
    }
    stack.reverse();
    Outcome { result, stack, scopes, stack_lost }
}

#[derive(Clone, Debug)]
enum Expect {
    /// exactly this many members
    Count(usize),
    /// the source, in order
    All,
    Empty,
    /// n distinct members
    Distinct(usize),
    /// documented unusable input: Err, not a panic
    Err,
    /// between lo and hi copies per member (IWO)
    PerMember(usize, usize),
    /// not judged beyond the generic rules when it succeeds (count unspecified)
    AnyCount,
}

fn judge(rep: &Reporter, name: &str, params: &str, below: &[T], source: &[T], seed: u64, out: &Outcome, expect: &Expect) -> Option<Vec<T>> {
    rep.case();
    let ctx = || json!({"operator": name, "params": params, "source": source.iter().map(|t| (t.0, val(t))).collect::<Vec<_>>(), "seed": seed});
    let size_class = if source.is_empty() { "empty" } else if source.len() == 1 { "single" } else { "many" };
    if out.stack_lost {
        rep.violation(&format!("{name}:population-stack-gone-from-the-state-that-held-it"), json!({"case": ctx(), "scopes_between_the_stack_and_the_operator": out.scopes, "result": format!("{:?}", out.result)}));
        return None;
    }
    match (&out.result, expect) {
        (Err(p), _) => {
            rep.violation(&format!("{name}:panic:{}", if matches!(expect, Expect::Err) { "on-documented-unusable-input" } else { "on-valid-input" }), json!({"case": ctx(), "panic": p}));
            return None;
        }
        (Ok(Err(e)), Expect::Err) => {
            let _ = e;
            // the source population must still be there, untouched
            if out.stack != vec![below.to_vec(), source.to_vec()] {
                rep.violation(&format!("{name}:source-not-untouched-after-error"), json!({"case": ctx(), "stack_after": format!("{:?}", out.stack)}));
            }
            rep.count("documented_errors_observed", 1);
            return None;
        }
        (Ok(Err(e)), _) => {
            rep.violation(&format!("{name}:error-on-valid-input:{size_class}"), json!({"case": ctx(), "error": e}));
            return None;
        }
        (Ok(Ok(())), Expect::Err) => {
            rep.violation(&format!("{name}:unusable-input-not-reported"), json!({"case": ctx(), "stack_after": format!("{:?}", out.stack)}));
            return None;
        }
        _ => {}
    }
    // success: exactly one population pushed, everything below untouched
    if out.stack.len() != 3 || out.stack[0] != below || out.stack[1] != source {
        rep.violation(&format!("{name}:source-touched-or-wrong-number-of-populations-pushed"), json!({"case": ctx(), "stack_after": format!("{:?}", out.stack)}));
        return None;
    }
    let sel = out.stack[2].clone();
    // exact copies of source members
    for s in &sel {
        if !source.contains(s) {
            rep.violation(&format!("{name}:selected-individual-is-not-a-copy-of-a-source-member"), json!({"case": ctx(), "selected": (s.0, val(s))}));
            return None;
        }
    }
    let count_ok = match expect {
        Expect::Count(n) => sel.len() == *n,
        Expect::All => sel == source,
        Expect::Empty => sel.is_empty(),
        Expect::Distinct(n) => {
            let mut tags: Vec<u32> = sel.iter().map(|t| t.0).collect();
            tags.sort();
            tags.dedup();
            sel.len() == *n && tags.len() == *n
        }
        Expect::PerMember(lo, hi) => source.iter().all(|m| {
            let c = sel.iter().filter(|s| *s == m).count();
            c >= *lo && c <= *hi
        }),
        Expect::AnyCount | Expect::Err => true,
    };
    if !count_ok {
        rep.violation(&format!("{name}:wrong-number-or-set-selected"), json!({"case": ctx(), "expected": format!("{expect:?}"), "selected": sel.iter().map(|t| (t.0, val(t))).collect::<Vec<_>>()}));
        return None;
    }
    Some(sel)
}

fn populations(rng: &mut SplitMix64, n_random: usize) -> Vec<Vec<T>> {
    let grid = [-2.0, 0.0, 0.0, 1.0, 3.0, f64::INFINITY, 1.0 + f64::EPSILON, 1e-18, 3.0 - 4.0 * f64::EPSILON];
    let mut out: Vec<Vec<T>> = vec![vec![]];
    let mk_pop = |vals: &[f64]| -> Vec<T> { vals.iter().enumerate().map(|(i, v)| (i as u32 + 1, v.to_bits())).collect() };
    out.push(mk_pop(&[1.0]));
    out.push(mk_pop(&[f64::INFINITY]));
    out.push(mk_pop(&[0.0, 0.0]));
    out.push(mk_pop(&[-2.0, 3.0]));
    out.push(mk_pop(&[3.0, 1.0, 0.0, -2.0]));
    out.push(mk_pop(&[1.0, 1.0, 1.0]));
    out.push(mk_pop(&[-2.0, 0.0, 0.0, 1.0, 3.0]));
    out.push(mk_pop(&[5.0, 4.0, 3.0, 2.0, 1.0, 0.5, 0.25, 0.125]));
    out.push(mk_pop(&[0.0, f64::INFINITY, 1.0]));
    // near ties: different values that a tolerant comparison would call equal (worse member stored first)
    out.push(mk_pop(&[9e-18, 1e-18, 4e-18]));
    out.push(mk_pop(&[1.9000000000000004, 1.9000000000000001, 1.0]));
    out.push(mk_pop(&[3.0, 1.0 + f64::EPSILON, 1.0, 2.0]));
    out.push(mk_pop(&[2e-300, 1e-300, 0.0]));
    out.push(mk_pop(&[-1.0, -1.0 - f64::EPSILON, -1.0 + f64::EPSILON / 2.0]));
    out.push(mk_pop(&[1e15, 1e15 + 0.125, 1e15 + 1.0]));
    for _ in 0..n_random {
        let len = rng.usize(9);
        let finite_only = rng.chance(0.7);
        let vals: Vec<f64> = (0..len).map(|_| loop {
            let v = *rng.pick(&grid);
            if !(finite_only && v.is_infinite()) {
                break v;
            }
        }).collect();
        out.push(mk_pop(&vals));
    }
    // a few populations well above the sizes at which sorting / sampling routines switch algorithm (insertion sort
    // below ~20 elements, chunked or partial selection above), with many ties among them
    for &len in &[21usize, 40, 64, 130] {
        let vals: Vec<f64> = (0..len).map(|_| if rng.chance(0.5) { *rng.pick(&grid[..5]) } else { (rng.below(40) as f64) / 4.0 - 3.0 }).collect();
        out.push(mk_pop(&vals));
    }
    out
}

fn main() {
    let rep = Reporter::from_args("C11");
    rep.rule("every selection component executed - directly or from inside one or two scopes opened over the state - on prepared two-population stacks of uniquely tagged individuals (sizes 0..8 and four of 21..130, duplicate/tied/negative/zero/infinite objective values) x requested counts {0,1,size-1,size,size+3} x seeds: stack below and source untouched (also after an error), exactly one population pushed, members are exact copies, count/distinctness as requested, documented unusable inputs give Err (never a panic); helper laws (proportional_weights antitone and >= offset, objective_bounds, reverse_rank monotone); selection pressure: per-pair frequency comparison over N draws with a Hoeffding margin, tournament over the whole population returns a best individual; DE selections: length and block layout. distinct_nontrivial = distinct (operator, parameters, population) cells");
    rep.assume("inputs that are neither valid nor documented as errors (e.g. FullyRandom on an empty population, tournament size 0) are not judged; frequency margin 2*sqrt(ln(2/1e-10)/(2N))");
    let mut rng = SplitMix64::new(rep.seed).fork(0xC11);
    let pops = populations(&mut rng, rep.tier.pick(300, 8000));
    let below: Vec<T> = vec![(900, 7.0f64.to_bits()), (901, 8.0f64.to_bits())];
    let seeds = rep.tier.pick(8u64, 64u64);
    for (pi, src) in pops.iter().enumerate() {
        let size = src.len();
        let finite = src.iter().all(|t| val(t).is_finite());
        let counts: Vec<usize> = {
            let mut c = vec![0, 1, size.saturating_sub(1), size, size + 3];
            c.sort();
            c.dedup();
            c
        };
        for s in 0..seeds {
            let seed = rep.seed.wrapping_mul(1000) + s + pi as u64 * 131;
            let run = |name: &str, params: String, comp: Box<dyn Component<TagP>>, expect: Expect| -> Option<Vec<T>> {
                rep.nontrivial(hash_of(&(name, &params, src)));
                let out = apply(comp.as_ref(), &below, src, seed);
                judge(&rep, name, &params, &below, src, seed, &out, &expect)
            };
            run("All", "-".into(), selection::All::new(), Expect::All);
            run("None", "-".into(), selection::None::new(), Expect::Empty);
            for &n in &counts {
                run("CloneSingle", format!("n={n}"), selection::CloneSingle::new(n as u32), if size == 1 { Expect::Count(n) } else { Expect::Err });
                if size > 0 {
                    run("FullyRandom", format!("n={n}"), selection::FullyRandom::new(n as u32), Expect::Count(n));
                }
                run("RandomWithoutRepetition", format!("n={n}"), selection::RandomWithoutRepetition::new(n as u32), if n <= size { Expect::Distinct(n) } else { Expect::Err });
                // fitness proportional: infinite objective values are documented as unusable
                if size > 0 {
                    let e = if finite { Expect::Count(n) } else { Expect::Err };
                    run("RouletteWheel", format!("n={n} offset=0.1"), selection::RouletteWheel::new(n as u32, 0.1), e.clone());
                    run("StochasticUniversalSampling", format!("n={n} offset=0.1"), selection::StochasticUniversalSampling::new(n as u32, 0.1), e);
                    run("LinearRank", format!("n={n}"), selection::LinearRank::new(n as u32), Expect::Count(n));
                    run("ExponentialRank", format!("n={n} base=0.5"), selection::ExponentialRank::new(n as u32, 0.5).unwrap(), Expect::Count(n));
                }
                for &ts in &[1usize, 2, size.max(1), size + 1] {
                    let e = if ts <= size { Expect::Count(n) } else { Expect::Err };
                    if let Some(sel) = run("Tournament", format!("n={n} size={ts}"), selection::Tournament::new(n as u32, ts as u32), e) {
                        if ts == size && size > 0 {
                            let best = src.iter().map(val).fold(f64::INFINITY, f64::min);
                            if sel.iter().any(|t| val(t) != best) {
                                rep.violation("Tournament:whole-population-tournament-does-not-return-the-best", json!({"source": src.iter().map(|t| (t.0, val(t))).collect::<Vec<_>>(), "selected": sel.iter().map(|t| (t.0, val(t))).collect::<Vec<_>>()}));
                            }
                        }
                    }
                }
            }
            // IWO
            for &(lo, hi) in &[(0u32, 3u32), (1, 1), (2, 5), (0, 0)] {
                let e = if size == 0 || !finite { Expect::Err } else { Expect::PerMember(lo as usize, hi as usize) };
                if let Some(sel) = run("DeterministicFitnessProportional", format!("min={lo} max={hi}"), iwo::DeterministicFitnessProportional::new(lo, hi), e) {
                    // better objective never gets fewer copies; best gets max, worst gets min when they differ
                    let copies = |m: &T| sel.iter().filter(|s| *s == m).count();
                    for a in src {
                        for b in src {
                            if val(a) < val(b) && copies(a) < copies(b) {
                                rep.violation("DeterministicFitnessProportional:worse-individual-gets-more-copies", json!({"source": src.iter().map(|t| (t.0, val(t))).collect::<Vec<_>>(), "better": (a.0, val(a), copies(a)), "worse": (b.0, val(b), copies(b))}));
                            }
                        }
                    }
                    let (mn, mx) = (src.iter().map(val).fold(f64::INFINITY, f64::min), src.iter().map(val).fold(f64::NEG_INFINITY, f64::max));
                    if mn < mx {
                        for m in src {
                            if (val(m) == mn && copies(m) != hi as usize) || (val(m) == mx && copies(m) != lo as usize) {
                                rep.violation("DeterministicFitnessProportional:best-or-worst-gets-wrong-number-of-copies", json!({"source": src.iter().map(|t| (t.0, val(t))).collect::<Vec<_>>(), "member": (m.0, val(m)), "copies": copies(m), "min": lo, "max": hi}));
                            }
                        }
                    }
                }
            }
            // DE selections
            for y in [1u32, 2] {
                let k = (2 * y + 1) as usize;
                let mut tags: Vec<u32> = src.iter().map(|t| t.0).collect();
                tags.dedup();
                let enough = size >= k + 1;
                // DERand: blocks of 2y+1 distinct members
                let e = if size == 0 { Expect::AnyCount } else if enough { Expect::Count(size * k) } else { Expect::AnyCount };
                if let (Some(sel), true) = (run("DERand", format!("y={y}"), sde::DERand::new(y).unwrap(), e), enough) {
                    for (bi, block) in sel.chunks(k).enumerate() {
                        let mut t: Vec<u32> = block.iter().map(|x| x.0).collect();
                        t.sort();
                        t.dedup();
                        if t.len() != k {
                            rep.violation("DERand:block-members-not-distinct", json!({"y": y, "block": bi, "tags": block.iter().map(|x| x.0).collect::<Vec<_>>()}));
                        }
                    }
                }
                let best = src.iter().map(val).fold(f64::INFINITY, f64::min);
                let e = if size == 0 { Expect::Err } else if enough { Expect::Count(size * k) } else { Expect::AnyCount };
                if let (Some(sel), true) = (run("DEBest", format!("y={y}"), sde::DEBest::new(y).unwrap(), e.clone()), enough) {
                    for (bi, block) in sel.chunks(k).enumerate() {
                        let mut rest: Vec<u32> = block[1..].iter().map(|x| x.0).collect();
                        rest.sort();
                        rest.dedup();
                        if val(&block[0]) != best || rest.len() != k - 1 {
                            rep.violation("DEBest:block-layout-wrong", json!({"y": y, "block": bi, "block_members": block.iter().map(|x| (x.0, val(x))).collect::<Vec<_>>(), "best_objective": best}));
                        }
                    }
                }
                if let (Some(sel), true) = (run("DECurrentToBest", format!("y={y}"), sde::DECurrentToBest::new(y).unwrap(), e), enough) {
                    for (bi, block) in sel.chunks(k).enumerate() {
                        let mut rest: Vec<u32> = block[2..].iter().map(|x| x.0).collect();
                        rest.sort();
                        rest.dedup();
                        if block[0] != src[bi] || val(&block[1]) != best || rest.len() != k - 2 || rest.contains(&src[bi].0) {
                            rep.violation("DECurrentToBest:block-layout-wrong", json!({"y": y, "block": bi, "block_members": block.iter().map(|x| (x.0, val(x))).collect::<Vec<_>>(), "current": (src[bi].0, val(&src[bi])), "best_objective": best}));
                        }
                    }
                }
            }
        }
        // helper laws
        if size > 0 {
            let inds: Vec<Individual<TagP>> = src.iter().map(mk).collect();
            rep.case();
            let (mx, mn) = sf::objective_bounds(&inds).unwrap();
            if mx != src.iter().map(val).fold(f64::NEG_INFINITY, f64::max) || mn != src.iter().map(val).fold(f64::INFINITY, f64::min) {
                rep.violation("objective_bounds:wrong", json!({"source": src.iter().map(val).collect::<Vec<_>>(), "bounds": [mx, mn]}));
            }
            for &offset in &[0.0, 0.1, 5.0] {
                for normalize in [false, true] {
                    rep.case();
                    let w = catch(|| sf::proportional_weights(&inds, offset, normalize));
                    match w {
                        Ok(None) => {
                            if finite {
                                rep.violation("proportional_weights:none-for-finite-objectives", json!({"source": src.iter().map(val).collect::<Vec<_>>()}));
                            }
                        }
                        Ok(Some(w)) => {
                            if !finite {
                                rep.violation("proportional_weights:weights-for-infinite-objectives", json!({"source": src.iter().map(val).collect::<Vec<_>>(), "weights": w}));
                            } else {
                                for i in 0..size {
                                    for j in 0..size {
                                        if val(&src[i]) < val(&src[j]) && w[i] < w[j] {
                                            rep.violation("proportional_weights:better-objective-gets-smaller-weight", json!({"source": src.iter().map(val).collect::<Vec<_>>(), "weights": w, "offset": offset, "normalize": normalize}));
                                        }
                                    }
                                    let distinct = src.iter().any(|t| val(t) != val(&src[0]));
                                    if !normalize && distinct && w[i] < offset - 1e-12 {
                                        rep.violation("proportional_weights:weight-below-offset", json!({"source": src.iter().map(val).collect::<Vec<_>>(), "weights": w, "offset": offset}));
                                    }
                                    if !(w[i] >= 0.0) {
                                        rep.violation("proportional_weights:negative-or-nan-weight", json!({"source": src.iter().map(val).collect::<Vec<_>>(), "weights": w}));
                                    }
                                }
                            }
                        }
                        Err(p) => rep.violation("proportional_weights:panic", json!({"source": src.iter().map(val).collect::<Vec<_>>(), "panic": p})),
                    }
                }
            }
            rep.case();
            let ranks = sf::reverse_rank(&inds);
            for i in 0..size {
                for j in 0..size {
                    let (a, b) = (val(&src[i]), val(&src[j]));
                    if (a < b && ranks[i] >= ranks[j]) || (a == b && ranks[i] != ranks[j]) {
                        rep.violation("reverse_rank:not-monotone", json!({"source": src.iter().map(val).collect::<Vec<_>>(), "ranks": ranks}));
                    }
                }
            }
        }
    }
    // DE selections on populations in which individuals repeat: exact duplicates (same solution, same objective)
    // and twins (same solution evaluated to different values, as a noisy objective produces them). The groups
    // must still be complete: population size x (2y+1) members, all of them copies of source members, the
    // first of each DECurrentToBest group the current individual, the best one second.
    for k in 0..rep.tier.pick(1_500, 200_000) {
        let y = 1 + (k % 2) as u32;
        let group = (2 * y + 1) as usize;
        let size = group + 1 + rng.usize(5);
        let distinct = 1 + rng.usize(size);
        let base: Vec<T> = (0..distinct).map(|i| (i as u32 + 1, ((rng.below(7) as f64) - 2.0).to_bits())).collect();
        let src: Vec<T> = (0..size)
            .map(|i| {
                if i < distinct {
                    base[i]
                } else {
                    let t = *rng.pick(&base);
                    if rng.chance(0.5) { t } else { (t.0, ((rng.below(7) as f64) - 2.0).to_bits()) }
                }
            })
            .collect();
        let best = src.iter().map(val).fold(f64::INFINITY, f64::min);
        let ops: [(&str, Box<dyn Component<TagP>>); 3] = [("DERand", sde::DERand::new(y).unwrap()), ("DEBest", sde::DEBest::new(y).unwrap()), ("DECurrentToBest", sde::DECurrentToBest::new(y).unwrap())];
        for (name, comp) in ops {
            rep.case();
            rep.nontrivial(hash_of(&("de-repeats", name, k)));
            let out = apply(comp.as_ref(), &below, &src, k as u64);
            let name_r = format!("{name}:population-with-repeated-individuals");
            let Some(sel) = judge(&rep, &name_r, &format!("y={y}"), &below, &src, k as u64, &out, &Expect::Count(size * group)) else { continue };
            for (bi, block) in sel.chunks(group).enumerate() {
                let bad = match name {
                    "DEBest" => val(&block[0]) != best,
                    "DECurrentToBest" => block[0] != src[bi] || val(&block[1]) != best,
                    _ => false,
                };
                if bad {
                    rep.violation(&format!("{name_r}:block-layout-wrong"), json!({"y": y, "block": bi, "block_members": block.iter().map(|x| (x.0, val(x))).collect::<Vec<_>>(), "source": src.iter().map(|t| (t.0, val(t))).collect::<Vec<_>>()}));
                    break;
                }
            }
        }
    }
    // IWO on real-valued objectives and spreads that are not powers of two: the best individual gets
    // exactly max copies, the worst exactly min, everyone in between a number in [min, max], better never fewer
    for k in 0..rep.tier.pick(3_000, 1_000_000) {
        let size = 2 + rng.usize(7);
        let vals: Vec<f64> = (0..size).map(|_| if rng.chance(0.5) { (rng.below(100) as f64) / 10.0 } else { rng.f64_in(-50.0, 50.0) }).collect();
        let src: Vec<T> = vals.iter().enumerate().map(|(i, v)| (i as u32 + 1, v.to_bits())).collect();
        let lo = rng.below(3) as u32;
        let hi = lo + *rng.pick(&[1u32, 3, 5, 6, 7, 9, 10]);
        rep.case();
        rep.nontrivial(hash_of(&("iwo-real", k)));
        let out = apply(iwo::DeterministicFitnessProportional::new::<TagP>(lo, hi).as_ref(), &below, &src, k as u64);
        let Some(sel) = judge(&rep, "DeterministicFitnessProportional", &format!("min={lo} max={hi}"), &below, &src, k as u64, &out, &Expect::PerMember(lo as usize, hi as usize)) else { continue };
        let copies = |m: &T| sel.iter().filter(|s| *s == m).count();
        let (mn, mx) = (vals.iter().cloned().fold(f64::INFINITY, f64::min), vals.iter().cloned().fold(f64::NEG_INFINITY, f64::max));
        if mn < mx {
            for m in &src {
                if (val(m) == mn && copies(m) != hi as usize) || (val(m) == mx && copies(m) != lo as usize) {
                    rep.violation("DeterministicFitnessProportional:best-or-worst-gets-wrong-number-of-copies", json!({"objectives": vals, "member": (m.0, val(m)), "copies": copies(m), "min": lo, "max": hi}));
                    break;
                }
            }
            for a in &src {
                for b in &src {
                    if val(a) < val(b) && copies(a) < copies(b) {
                        rep.violation("DeterministicFitnessProportional:worse-individual-gets-more-copies", json!({"objectives": vals, "min": lo, "max": hi}));
                    }
                }
            }
        }
    }
    // selection pressure: frequencies
    let n_draws = rep.tier.pick(40_000u32, 1_000_000u32);
    let margin = 2.0 * ((2.0f64 / 1e-10).ln() / (2.0 * n_draws as f64)).sqrt();
    rep.set("pressure_draws", json!(n_draws));
    rep.set("pressure_margin", json!(margin));
    let pressure_pops: Vec<Vec<f64>> = vec![vec![5.0, 4.0, 3.0, 2.0, 1.0], vec![-2.0, 0.0, 1.0, 3.0], vec![1.0, 10.0, 100.0], vec![0.5, 0.25, 3.0, 2.0, 1.0, 7.0], vec![1.9000000000000004, 1.9000000000000001, 3.0], vec![4e-18, 1e-18, 9e-18]];
    for (pi, vals) in pressure_pops.iter().enumerate() {
        let src: Vec<T> = vals.iter().enumerate().map(|(i, v)| (i as u32 + 1, v.to_bits())).collect();
        let ops: Vec<(&str, Box<dyn Component<TagP>>)> = vec![
            ("RouletteWheel", selection::RouletteWheel::new(n_draws, 0.1)),
            ("StochasticUniversalSampling", selection::StochasticUniversalSampling::new(n_draws, 0.1)),
            ("LinearRank", selection::LinearRank::new(n_draws)),
            ("ExponentialRank", selection::ExponentialRank::new(n_draws, 0.6).unwrap()),
            ("Tournament", selection::Tournament::new(n_draws, 2)),
        ];
        for (name, comp) in ops {
            rep.case();
            rep.nontrivial(hash_of(&("pressure", name, pi)));
            let out = apply(comp.as_ref(), &below, &src, rep.seed + pi as u64);
            let Some(sel) = judge(&rep, name, &format!("n={n_draws}"), &below, &src, rep.seed, &out, &Expect::Count(n_draws as usize)) else { continue };
            let freq: Vec<f64> = src.iter().map(|m| sel.iter().filter(|s| *s == m).count() as f64 / n_draws as f64).collect();
            for i in 0..src.len() {
                for j in 0..src.len() {
                    if vals[i] < vals[j] && freq[i] < freq[j] - margin {
                        rep.violation(&format!("{name}:favours-a-worse-individual"), json!({"objectives": vals, "selection_frequencies": freq, "better_index": i, "worse_index": j, "margin": margin, "draws": n_draws}));
                    }
                }
            }
            rep.count("pressure_tables", 1);
        }
    }
    rep.sample(json!({"operator": "RandomWithoutRepetition", "params": "n=size", "source": [[1, -2.0], [2, 0.0], [3, 0.0], [4, 1.0], [5, 3.0]], "expected": "5 distinct members"}));
    rep.finish();
}
