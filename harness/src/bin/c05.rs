//! C05 — no stale objective values.
//! (a) histories of individual-level operations vs an evaluated/unevaluated model;
//! (b) audit of every individual anywhere in the state after every component of every template run
//!     and of generated operator pipelines (step-observer hook).
use std::sync::Mutex;

use mahf::{
    components::{archive, boundary, initialization, mutation, recombination, replacement, selection, swarm},
    conditions::LessThanN,
    population::{AsSolutions, AsSolutionsMut, IntoIndividuals, IntoSingle, IntoSingleRef, IntoSolutions},
    problems::KnownOptimumProblem,
    verif::StepEvent,
    Component, Configuration, Individual, Problem, SingleObjective,
};
use mv::{
    hash_of, num_workers,
    pipelines::{bits_pipeline, perm_pipeline, real_pipeline},
    observe::{for_each_individual, run_observed},
    problems::*,
    report::Local,
    templates::{self, CaseMeta, TemplateVisitor},
    Reporter, SplitMix64,
};
use serde_json::json;

// ---------------------------------------------------------------------------------------------
// (a) individual-level model

struct IntP;
impl Problem for IntP {
    type Encoding = Vec<u8>;
    type Objective = SingleObjective;
    fn name(&self) -> &str {
        "verif_int"
    }
}

fn f(k: u8, s: &[u8]) -> f64 {
    k as f64 * 1000.0 + s.iter().enumerate().map(|(i, v)| *v as f64 * (i as f64 + 1.0)).sum::<f64>()
}
fn so(v: f64) -> SingleObjective {
    v.try_into().unwrap()
}

#[derive(Clone, Copy, Debug, PartialEq, Eq, Hash)]
enum IOp {
    Eval(u8, u8), // target, function index
    SetObjTrue(u8),
    MutWrite(u8),
    MutNoWrite(u8),
    CloneOver(u8), // other = target.clone()
    CloneFrom(u8), // other.clone_from(&target)
    Rebuild(u8),   // target = new_unevaluated(target.into_solution())
    NewEvaluated(u8), // target = Individual::new(sol, f0(sol))
    AsSolutionsMutBoth,
    RoundTripBoth, // into_solutions().into_individuals()
    VecCloneFrom,  // vec![a, b].clone_from(&vec![b, a])
}

type M = (Vec<u8>, Option<f64>);

fn ialphabet() -> Vec<IOp> {
    let mut v = vec![IOp::AsSolutionsMutBoth, IOp::RoundTripBoth, IOp::VecCloneFrom];
    for t in 0..2 {
        v.extend([IOp::Eval(t, 0), IOp::Eval(t, 1), IOp::SetObjTrue(t), IOp::MutWrite(t), IOp::MutNoWrite(t), IOp::CloneOver(t), IOp::CloneFrom(t), IOp::Rebuild(t), IOp::NewEvaluated(t)]);
    }
    v
}

fn check_pair(real: &[Individual<IntP>; 2], model: &[M; 2]) -> Option<String> {
    for i in 0..2 {
        let r = &real[i];
        let m = &model[i];
        if r.solution() != &m.0 {
            return Some(format!("individual {i}: solution {:?}, model {:?}", r.solution(), m.0));
        }
        if r.is_evaluated() != m.1.is_some() {
            return Some(format!("individual {i}: is_evaluated() = {}, model objective {:?} (solution {:?})", r.is_evaluated(), m.1, m.0));
        }
        let got = r.get_objective().map(|o| o.value());
        if got != m.1 {
            return Some(format!("individual {i}: reports objective {got:?} for solution {:?}, model {:?}", m.0, m.1));
        }
        // copies keep solution and objective together
        let c = r.clone();
        if &c != r || c.get_objective().map(|o| o.value()) != got {
            return Some(format!("individual {i}: clone differs from its source"));
        }
    }
    // reading helpers do not change anything
    let v = vec![real[0].clone(), real[1].clone()];
    let sols = v.as_solutions();
    if sols[0] != &model[0].0 || sols[1] != &model[1].0 {
        return Some("as_solutions() returned other solutions".into());
    }
    if (real[0] == real[1]) != (model[0] == model[1]) {
        return Some("PartialEq between the two individuals disagrees with (solution, objective) equality".into());
    }
    let single = vec![real[0].clone()];
    match (&single).into_single_ref() {
        Ok(s) if s == &real[0] => {}
        _ => return Some("into_single_ref on a one-element population did not return the element".into()),
    }
    match single.into_single() {
        Ok(s) if s == real[0] => {}
        _ => return Some("into_single on a one-element population did not return the element".into()),
    }
    if v.clone().into_single().is_ok() {
        return Some("into_single on a two-element population succeeded".into());
    }
    None
}

fn run_ihistory(ops: &[IOp]) -> Result<(), (String, String, usize)> {
    let mut real: [Individual<IntP>; 2] = [Individual::new_unevaluated(vec![1, 2]), Individual::new(vec![3, 0], so(f(0, &[3, 0])))];
    let mut model: [M; 2] = [(vec![1, 2], None), (vec![3, 0], Some(f(0, &[3, 0])))];
    for (i, &op) in ops.iter().enumerate() {
        match op {
            IOp::Eval(t, k) => {
                let t = t as usize;
                real[t].evaluate_with(|s| so(f(k, s)));
                model[t].1 = Some(f(k, &model[t].0));
            }
            IOp::SetObjTrue(t) => {
                let t = t as usize;
                let v = f(0, &model[t].0);
                let was = real[t].set_objective(so(v));
                if was != model[t].1.is_some() {
                    return Err(("individual:set_objective-wrong-return".into(), format!("set_objective returned {was}, model evaluated = {}", model[t].1.is_some()), i));
                }
                model[t].1 = Some(v);
            }
            IOp::MutWrite(t) => {
                let t = t as usize;
                let s = real[t].solution_mut();
                s[0] = s[0].wrapping_add(1);
                model[t].0[0] = model[t].0[0].wrapping_add(1);
                model[t].1 = None;
            }
            IOp::MutNoWrite(t) => {
                let t = t as usize;
                let _ = real[t].solution_mut();
                model[t].1 = None;
            }
            IOp::CloneOver(t) => {
                let t = t as usize;
                real[1 - t] = real[t].clone();
                model[1 - t] = model[t].clone();
            }
            IOp::CloneFrom(t) => {
                let t = t as usize;
                let src = real[t].clone();
                real[1 - t].clone_from(&src);
                model[1 - t] = model[t].clone();
            }
            IOp::Rebuild(t) => {
                let t = t as usize;
                let old = std::mem::replace(&mut real[t], Individual::new_unevaluated(vec![]));
                real[t] = Individual::new_unevaluated(old.into_solution());
                model[t].1 = None;
            }
            IOp::NewEvaluated(t) => {
                let t = t as usize;
                let sol = real[t].solution().clone();
                let v = f(0, &sol);
                real[t] = Individual::new(sol, so(v));
                model[t].1 = Some(v);
            }
            IOp::AsSolutionsMutBoth => {
                let mut v = vec![real[0].clone(), real[1].clone()];
                {
                    let mut sols = v.as_solutions_mut();
                    sols[1][0] = sols[1][0].wrapping_add(2);
                }
                real = [v[0].clone(), v[1].clone()];
                model[1].0[0] = model[1].0[0].wrapping_add(2);
                model[0].1 = None;
                model[1].1 = None;
            }
            IOp::RoundTripBoth => {
                let v = vec![real[0].clone(), real[1].clone()];
                let back: Vec<Individual<IntP>> = v.into_solutions().into_individuals();
                real = [back[0].clone(), back[1].clone()];
                model[0].1 = None;
                model[1].1 = None;
            }
            IOp::VecCloneFrom => {
                let mut v = vec![real[0].clone(), real[1].clone()];
                let w = vec![real[1].clone(), real[0].clone()];
                v.clone_from(&w);
                real = [v[0].clone(), v[1].clone()];
                model.swap(0, 1);
            }
        }
        if let Some(msg) = check_pair(&real, &model) {
            let class = match op {
                IOp::Eval(..) => "evaluate_with",
                IOp::SetObjTrue(_) => "set_objective",
                IOp::MutWrite(_) | IOp::MutNoWrite(_) => "solution_mut",
                IOp::CloneOver(_) => "clone",
                IOp::CloneFrom(_) | IOp::VecCloneFrom => "clone_from",
                IOp::Rebuild(_) | IOp::NewEvaluated(_) => "constructor",
                IOp::AsSolutionsMutBoth => "as_solutions_mut",
                IOp::RoundTripBoth => "into_solutions/into_individuals",
            };
            return Err((format!("individual:after-{class}"), msg, i));
        }
    }
    Ok(())
}

fn individual_histories(rep: &Reporter, len: usize) {
    let alpha = ialphabet();
    let a = alpha.len();
    let total = a.pow(len as u32);
    std::thread::scope(|s| {
        for range in mv::shards(total, num_workers()) {
            let alpha = &alpha;
            s.spawn(move || {
                let mut local = Local::new();
                let mut ops = vec![alpha[0]; len];
                for idx in range {
                    let mut x = idx;
                    for slot in ops.iter_mut() {
                        *slot = alpha[x % a];
                        x /= a;
                    }
                    local.case();
                    if idx % 97 == 0 {
                        local.nontrivial(hash_of(&ops));
                    }
                    if let Err((sig, msg, at)) = run_ihistory(&ops) {
                        rep.violation(&sig, json!({"kind": "individual-history", "ops": format!("{:?}", &ops[..=at]), "failed_at": at, "observed": msg}));
                    }
                }
                rep.merge(local);
            });
        }
    });
    rep.count("individual_histories", total as u64);
    // Default
    let d: Individual<IntP> = Individual::default();
    if d.is_evaluated() {
        rep.violation("individual:default-is-evaluated", json!({"observed": "Individual::default() reports an objective"}));
    }
}

// ---------------------------------------------------------------------------------------------
// (b) audit after every component

struct Audit<'r> {
    rep: &'r Reporter,
    what: &'static str,
}

fn audit_run<P>(rep: &Reporter, what: &str, label: &str, detail: serde_json::Value, cfg: &Configuration<P>, problem: &P, seed: u64, parallel: bool)
where
    P: Instrumented,
{
    audit_run_prepared(rep, what, label, detail, cfg, problem, seed, parallel, None)
}

#[allow(clippy::too_many_arguments)]
fn audit_run_prepared<P>(rep: &Reporter, what: &str, label: &str, detail: serde_json::Value, cfg: &Configuration<P>, problem: &P, seed: u64, parallel: bool, prepared: Option<Vec<P::Encoding>>)
where
    P: Instrumented,
{
    audit_run_custom(rep, what, label, detail, cfg, problem, seed, parallel, prepared, |_| {})
}

/// Like `audit_run_prepared`; `extra` prepares further state (swarm memories) after the population has been pushed.
#[allow(clippy::too_many_arguments)]
fn audit_run_custom<P>(rep: &Reporter, what: &str, label: &str, detail: serde_json::Value, cfg: &Configuration<P>, problem: &P, seed: u64, parallel: bool, prepared: Option<Vec<P::Encoding>>, extra: impl for<'s> FnOnce(&mut mahf::State<'s, P>) + Send)
where
    P: Instrumented,
{
    #[derive(Default)]
    struct Rec {
        events: u64,
        audited: u64,
        evaluated: u64,
        stale: Vec<(String, String, String)>,
        last: String,
        per_component_unevaluated: std::collections::BTreeMap<String, u64>,
    }
    let rec = Mutex::new(Rec::default());
    let prepare = |state: &mut mahf::State<P>| {
        if let Some(sols) = prepared {
            // a prepared, truthfully evaluated population
            let inds: Vec<Individual<P>> = sols.into_iter().map(|s| { let v = problem.pure(&s); Individual::new(s, v.try_into().unwrap()) }).collect();
            state.populations_mut().push(inds);
        }
        extra(state);
    };
    let res = mv::observe::run_observed_prepared(cfg, problem, seed, parallel, None, prepare, |ev, p, state| {
        if let StepEvent::BlockChild { before, component, .. } = ev {
            let mut r = rec.lock().unwrap();
            let name = mv::sniff::name_of(component);
            if before {
                r.last = name;
                return;
            }
            r.events += 1;
            let mut audited = 0;
            let mut evaluated = 0;
            let mut unevaluated = 0;
            let mut stale = Vec::new();
            for_each_individual(state, |loc, depth, ind| {
                audited += 1;
                match ind.get_objective() {
                    Some(o) => {
                        evaluated += 1;
                        let want = p.pure(ind.solution());
                        if o.value().to_bits() != want.to_bits() {
                            stale.push((name.clone(), loc.to_string(), format!("{loc} (scope {depth}): reports {} but f(solution) = {} for solution {}", o.value(), want, P::sol_json(ind.solution()))));
                        }
                    }
                    None => unevaluated += 1,
                }
            });
            r.audited += audited;
            r.evaluated += evaluated;
            *r.per_component_unevaluated.entry(name).or_insert(0) += unevaluated;
            r.stale.extend(stale);
        }
    });
    rep.case();
    let r = rec.lock().unwrap();
    rep.count("hook_events", r.events);
    rep.count("individuals_audited", r.audited);
    rep.count("evaluated_individuals_audited", r.evaluated);
    rep.nontrivial(hash_of(&(what, label, seed, parallel)));
    for (comp, loc, msg) in r.stale.iter().take(3) {
        rep.violation(&format!("stale:{what}:after-{comp}:{loc}"), json!({"run": label, "detail": detail, "seed": seed, "observed": msg}));
    }
    // a run that dies is C16's business, but a panic caused by reading a missing objective is a
    // symptom of an operator leaving unevaluated individuals where evaluated ones are expected
    if let Err(p) = &res {
        if p.contains("individual.rs") {
            rep.count("runs_panicking_on_missing_objective", 1);
        }
    }
    if rep.want_sample() && r.events > 20 {
        rep.sample(json!({"run": label, "detail": detail, "hook_events": r.events, "individuals_audited": r.audited, "unevaluated_individuals_seen_after": r.per_component_unevaluated}));
    }
}

impl<'r> TemplateVisitor for Audit<'r> {
    fn visit<P>(&mut self, meta: &CaseMeta, cfg: Configuration<P>, problem: &P)
    where
        P: Instrumented + KnownOptimumProblem,
    {
        audit_run(self.rep, self.what, &format!("{:?}", meta.tmpl), json!(meta), &cfg, problem, meta.seed, meta.parallel);
        self.rep.distinct("templates", hash_of(&meta.tmpl));
    }
}

/// Swarm / replacement operators that move or re-seed particles on prepared hostile populations:
/// coordinates exactly 0.0 / -0.0, subnormal and tiny values, the domain bounds, duplicates, far-apart
/// particles; randomisation switched off or nearly off.
fn hostile_swarm_states(rep: &Reporter, n: usize) {
    let mut rng = SplitMix64::new(rep.seed).fork(0xC05_5);
    let special = [0.0, -0.0, 1e-300, 5e-324, 1e-17, -1e-17, 6.5, 9.999999999, 1.0, 3.0];
    for k in 0..n {
        let dim = 1 + rng.usize(3);
        let (lo, hi) = *rng.pick(&[(0.0, 10.0), (-10.0, 10.0), (-1.0, 7.0)]);
        let f = *rng.pick(&[RealFn::Sphere, RealFn::ShiftedSphere, RealFn::NegSphere, RealFn::Plateau]);
        let problem = Real::new(dim, lo, hi, f);
        let size = 2 + rng.usize(5);
        let pop: Vec<Vec<f64>> = (0..size)
            .map(|_| (0..dim).map(|_| { let v = if rng.chance(0.6) { *rng.pick(&special) } else { rng.f64_in(lo, hi) }; v.clamp(lo, hi) }).collect())
            .collect();
        let seed = rng.below(1 << 40);
        let alpha = *rng.pick(&[0.0, 1e-20, 1e-9, 0.5]);
        let beta = *rng.pick(&[1.0, 0.2]);
        let gamma = *rng.pick(&[0.01, 1.0, 10.0, 100.0]);
        let (cfg, label): (Configuration<Real>, String) = match k % 4 {
            0 | 1 => (
                Configuration::builder().evaluate().do_(swarm::fa::FireflyPositionsUpdate::new(alpha, beta, gamma)).build(),
                format!("prepared population; evaluate; FireflyPositionsUpdate(alpha={alpha}, beta={beta}, gamma={gamma})"),
            ),
            2 => (
                Configuration::builder().evaluate().update_best_individual().do_(swarm::bh::BlackHoleParticlesUpdate::new()).evaluate().update_best_individual().do_(replacement::bh::EventHorizon::new()).build(),
                "prepared population; evaluate; update_best; BlackHoleParticlesUpdate; evaluate; update_best; EventHorizon".into(),
            ),
            _ => (
                Configuration::builder()
                    .evaluate()
                    .update_best_individual()
                    .do_(mahf::heuristics::pso::pso::<Real, mahf::identifier::Global>(
                        mahf::heuristics::pso::Parameters {
                            particle_init: swarm::pso::ParticleSwarmInit::new(0.5).unwrap(),
                            particle_update: swarm::pso::ParticleVelocitiesUpdate::new(0.5, alpha.min(2.0), 1.7, 0.5).unwrap(),
                            constraints: boundary::Saturation::new(),
                            inertia_weight_update: None,
                            state_update: swarm::pso::ParticleSwarmUpdate::new(),
                        },
                        LessThanN::iterations(3),
                    ))
                    .build(),
                "prepared population; evaluate; pso loop x3".into(),
            ),
        };
        audit_run_prepared(rep, "hostile-swarm-state", &label, json!({"domain": [lo, hi], "f": format!("{f:?}"), "population": format!("{pop:?}")}), &cfg, &problem, seed, false, Some(pop));
        rep.count("hostile_swarm_state_runs", 1);
    }
}

/// One ulp across a bound, and swarms at the scale of 1e-170: data states that a run reaches only late (converged onto an
/// optimum on the boundary resp. at the origin). A repair step or a velocity update that changes a solution by however
/// little leaves it unevaluated - or carrying the value of the new solution.
fn rare_scale_states(rep: &Reporter, n: usize) {
    use mahf::{components::swarm::pso::{BestParticle, BestParticles, ParticleVelocities, ParticleVelocitiesUpdate}, identifier::Global};
    let mut rng = SplitMix64::new(rep.seed).fork(0xC05_A);
    let up = |x: f64| if x == 0.0 { f64::from_bits(1) } else if x > 0.0 { f64::from_bits(x.to_bits() + 1) } else { f64::from_bits(x.to_bits() - 1) };
    let down = |x: f64| if x == 0.0 { -f64::from_bits(1) } else if x > 0.0 { f64::from_bits(x.to_bits() - 1) } else { f64::from_bits(x.to_bits() + 1) };
    for k in 0..n {
        let dim = 1 + rng.usize(3);
        let f = *rng.pick(&[RealFn::AbsSum, RealFn::AbsSum, RealFn::ShiftedSphere, RealFn::Sphere]);
        let size = 2 + rng.usize(4);
        let seed = rng.below(1 << 40);
        if k % 2 == 0 {
            // (1) boundary repair on evaluated individuals at, one or two ulps beyond, and a rounding error beyond the bounds
            let (lo, hi) = *rng.pick(&[(0.5, 10.0), (-10.0, 10.0), (-1.0, 7.0), (1000.0, 1001.0), (-3.0, -0.25)]);
            let problem = Real::new(dim, lo, hi, f);
            let near = [lo, hi, up(hi), up(up(hi)), down(lo), down(down(lo)), hi + hi.abs() * f64::EPSILON, lo - lo.abs() * f64::EPSILON, hi + 1e-16, lo - 1e-16, down(hi), up(lo), hi + 0.5, lo - 3.0];
            let pop: Vec<Vec<f64>> = (0..size).map(|_| (0..dim).map(|_| if rng.chance(0.7) { *rng.pick(&near) } else { rng.f64_in(lo, hi) }).collect()).collect();
            let (comp, name): (Box<dyn mahf::Component<Real>>, &str) = match rng.below(4) {
                0 => (boundary::Saturation::new(), "Saturation"),
                1 => (boundary::Toroidal::new(), "Toroidal"),
                2 => (boundary::Mirror::new(), "Mirror"),
                _ => (boundary::CompleteOneTailedNormalCorrection::new(), "CompleteOneTailedNormalCorrection"),
            };
            let cfg = Configuration::builder().do_(comp).build();
            audit_run_prepared(rep, "ulp-beyond-a-bound", &format!("prepared evaluated population; {name}"), json!({"domain": [lo, hi], "f": format!("{f:?}"), "population": format!("{pop:?}")}), &cfg, &problem, seed, false, Some(pop));
        } else {
            // (2) velocity update of an all but converged swarm
            let problem = Real::new(dim, -1.0, 1.0, f);
            let scale = *rng.pick(&[1e-150, 1e-162, 1e-170, 1e-200, 1e-300, 1e-310, 5e-324, 1e-9]);
            let vscale = *rng.pick(&[1e-163, 1e-170, 1e-200, 1e-308, 5e-324, 0.0]);
            let small = |rng: &mut SplitMix64, s: f64| (rng.below(9) as f64 - 4.0) * s;
            let pop: Vec<Vec<f64>> = (0..size).map(|_| (0..dim).map(|_| small(&mut rng, scale)).collect()).collect();
            let vel: Vec<Vec<f64>> = (0..size).map(|_| (0..dim).map(|_| small(&mut rng, vscale)).collect()).collect();
            let best: Vec<f64> = if rng.bool() { vec![0.0; dim] } else { pop[0].clone() };
            let personal: Vec<Vec<f64>> = pop.iter().map(|x| if rng.bool() { x.clone() } else { x.iter().map(|v| v * 0.5).collect() }).collect();
            let (w, c1, c2) = (*rng.pick(&[0.7, 1.0, 0.0]), *rng.pick(&[1.0, 0.0, 1.7]), *rng.pick(&[1.0, 0.0, 1.7]));
            let cfg = Configuration::builder().do_(ParticleVelocitiesUpdate::new::<Real>(w, c1, c2, 1.0).unwrap()).build();
            let detail = json!({"f": format!("{f:?}"), "population": format!("{pop:?}"), "velocities": format!("{vel:?}"), "global_best": format!("{best:?}"), "w,c1,c2": [w, c1, c2]});
            let ev = |s: &Vec<f64>| -> Individual<Real> { Individual::new(s.clone(), problem.pure(s).try_into().unwrap()) };
            let (pb, gb) = (personal.iter().map(ev).collect::<Vec<_>>(), ev(&best));
            audit_run_custom(rep, "converged-swarm", "prepared evaluated swarm with velocities and memories; ParticleVelocitiesUpdate", detail, &cfg, &problem, seed, false, Some(pop), move |state| {
                state.insert(ParticleVelocities::<Global>::new(vel));
                state.insert(BestParticles::<Real, Global>::new(pb));
                state.insert(BestParticle::<Real, Global>::new(Some(gb)));
            });
        }
        rep.count("rare_scale_state_runs", 1);
    }
}

fn pipelines(rep: &Reporter, n: usize) {
    std::thread::scope(|s| {
        for (w, range) in mv::shards(n, num_workers()).into_iter().enumerate() {
            s.spawn(move || {
                let mut rng = SplitMix64::new(rep.seed).fork(0xC05_0000 + w as u64);
                for _ in range {
                    let seed = rng.below(1_000_000);
                    match rng.below(3) {
                        0 => {
                            let inst = rng.usize(8);
                            let problem = templates::real_instance(if inst == 0 { 1 } else { inst }); // dim >= 2 for the crossovers
                            let (cfg, d) = real_pipeline(&mut rng);
                            audit_run(rep, "pipeline", &d, json!({"instance": templates::real_instance_desc(if inst == 0 { 1 } else { inst })}), &cfg, &problem, seed, rng.chance(0.2));
                        }
                        1 => {
                            let dim = 2 + rng.usize(10);
                            let problem = Bits::new(dim, if rng.bool() { BitFn::OneMax } else { BitFn::Trap });
                            let (cfg, d) = bits_pipeline(&mut rng);
                            audit_run(rep, "pipeline", &d, json!({"instance": format!("Bits dim {dim}")}), &cfg, &problem, seed, rng.chance(0.2));
                        }
                        _ => {
                            let dim = 3 + rng.usize(6);
                            let problem = Perm::new(dim);
                            let (cfg, d) = perm_pipeline(&mut rng, dim);
                            audit_run(rep, "pipeline", &d, json!({"instance": format!("Perm dim {dim}")}), &cfg, &problem, seed, false);
                        }
                    }
                    rep.count("pipeline_runs", 1);
                }
            });
        }
    });
}

/// A user-written mutation driven through the public `mutation::mutation` driver that changes every solution it is
/// handed and fails on the k-th one: whatever the driver leaves behind after the error, no individual may carry
/// an objective value that belongs to its solution before the change.
#[derive(Clone, serde::Serialize)]
struct FailAt {
    k: usize,
    #[serde(skip)]
    seen: std::sync::Arc<std::sync::atomic::AtomicUsize>,
}
impl mahf::components::mutation::Mutation<Real> for FailAt {
    fn mutate(&self, solution: &mut Vec<f64>, _problem: &Real, _state: &mut mahf::State<Real>) -> mahf::ExecResult<()> {
        let i = self.seen.fetch_add(1, std::sync::atomic::Ordering::SeqCst);
        solution[0] += 0.5;
        if i == self.k {
            Err(eyre::eyre!("injected failure on individual {i}"))
        } else {
            Ok(())
        }
    }
}

fn failing_operator(rep: &Reporter, n: usize) {
    use mahf::{components::evaluation::BestIndividualUpdate, state::common::Populations, Component};
    let mut rng = SplitMix64::new(rep.seed).fork(0xC05_9);
    for case in 0..n {
        let dim = 1 + rng.usize(3);
        let problem = Real::new(dim, -4.0, 4.0, RealFn::Sphere);
        let mk_pop = |rng: &mut SplitMix64, n: usize| -> Vec<Individual<Real>> {
            (0..n)
                .map(|_| {
                    let s: Vec<f64> = (0..dim).map(|_| rng.f64_in(-4.0, 4.0)).collect();
                    let v = problem.pure(&s);
                    Individual::new(s, v.try_into().unwrap())
                })
                .collect()
        };
        let size = 1 + rng.usize(6);
        let k = rng.usize(size + 2); // k >= size: no failure
        let mut st = mahf::State::<Real>::new();
        let mut pops = Populations::<Real>::new();
        pops.push(mk_pop(&mut rng, 2));
        pops.push(mk_pop(&mut rng, size));
        st.insert(pops);
        st.insert(mahf::state::Random::new(case as u64));
        let best = BestIndividualUpdate::new::<Real>();
        let _ = best.init(&problem, &mut st);
        let _ = best.execute(&problem, &mut st);
        let op = FailAt { k, seen: Default::default() };
        let r = mv::catch(|| mahf::components::mutation::mutation(&op, &problem, &mut st).map_err(|e| e.to_string()));
        rep.case();
        rep.nontrivial(hash_of(&("failing-operator", size, k)));
        rep.count(if k < size { "driver_runs_with_a_failing_operator" } else { "driver_runs_without_failure" }, 1);
        let audit = |st: &mahf::State<Real>, when: &str| {
            let mut stale = Vec::new();
            for_each_individual(st, |loc, _depth, ind| {
                if let Some(o) = ind.get_objective() {
                    let want = problem.pure(ind.solution());
                    if o.value().to_bits() != want.to_bits() {
                        stale.push(format!("{loc}: reports {} but f(solution) = {want}", o.value()));
                    }
                }
            });
            if let Some(m) = stale.first() {
                rep.violation(&format!("stale:{when}"), json!({"population_size": size, "operator_fails_on_individual": k, "driver_result": format!("{r:?}"), "observed": m}));
            }
        };
        audit(&st, if k < size { "after-a-failed-mutation-through-the-public-driver" } else { "after-a-mutation-through-the-public-driver" });
        // the state is used again: the best-so-far update must not pick up a stale value either
        let top_evaluated = st.populations().get_current().map(|c| !c.is_empty() && c.iter().all(|i| i.is_evaluated())).unwrap_or(false);
        if top_evaluated {
            let _ = mv::catch(|| best.execute(&problem, &mut st).map_err(|e| e.to_string()));
            audit(&st, "best-so-far-after-a-failed-mutation");
        }
    }
}

fn main() {
    let rep = Reporter::from_args("C05");
    rep.rule("(a) every history up to the stated length over 21 individual-level operations on a pair of individuals (evaluate_with two different functions, set_objective, solution_mut with/without write, clone, clone_from, Vec::clone_from, constructors, as_solutions_mut, into_solutions/into_individuals) compared with a (solution, cached objective) model after every step; (b) after EVERY child of every block (step-observer hook) of runs of all 21 templates over the parameter catalogue and of seeded random operator pipelines (selection x 1-3 variation/boundary/swarm operators x archive x replacement, three encodings), and of the swarm operators that move or re-seed particles (firefly update, black-hole update + event horizon, PSO loop) started from prepared hostile populations (coordinates exactly 0.0/-0.0, subnormal and tiny values, domain bounds, duplicates, randomisation switched off or nearly off), of the four boundary repairs on prepared evaluated populations with coordinates on, one and two ulps beyond and a rounding error beyond the bounds, and of the PSO velocity update on prepared all-but-converged swarms (positions and velocities of magnitude 1e-150..5e-324 with their memories, objective sum|x_i|): every individual in the population stack and in every memory state (best-so-far, elitist archive, PSO bests, CRO molecule bests, every scope) that reports an objective must carry exactly f_pure(solution), bit for bit. distinct_nontrivial = distinct audited runs + a 1/97 sample of the exhaustive histories; (c) second runs on the state a first run left behind, on a changed problem instance (Configuration::run with a warm-start configuration: evaluate, best-so-far update, generic ga / es / ls / de loop), audited against the second objective function after every component");
    rep.assume("objective functions of the harness problems are pure; Individual::new / set_objective are caller assertions and are only ever given true values");
    let len = rep.tier.pick(5usize, 6usize);
    rep.set("individual_history_length", json!(len));
    rep.sample(json!({"individual_history": format!("{:?}", [IOp::Eval(0, 0), IOp::CloneOver(0), IOp::MutNoWrite(1), IOp::CloneFrom(1), IOp::Eval(0, 1)])}));
    individual_histories(&rep, len);

    let seeds = rep.tier.pick(10usize, 200usize);
    let cases = templates::cases(rep.quick(), rep.seed, seeds);
    let n = cases.len();
    std::thread::scope(|s| {
        for range in mv::shards(n, num_workers()) {
            let cases = &cases;
            let rep = &rep;
            s.spawn(move || {
                let mut v = Audit { rep, what: "template" };
                for i in range {
                    templates::dispatch(&cases[i], &mut v, &mut |_m, _e| {});
                }
            });
        }
    });
    rep.count("template_runs", n as u64);
    pipelines(&rep, rep.tier.pick(10_000, 1_000_000));
    hostile_swarm_states(&rep, rep.tier.pick(4_000, 600_000));
    failing_operator(&rep, rep.tier.pick(2_000, 200_000));
    rare_scale_states(&rep, rep.tier.pick(6_000, 600_000));
    // a second run on the state of a first one, on a changed problem instance: whatever the second run
    // re-creates (best-so-far, populations it re-evaluates) carries values of the second objective only
    {
        let mut rng = SplitMix64::new(rep.seed).fork(0xC05_7);
        for k in 0..rep.tier.pick(400usize, 20_000usize) {
            let o = mv::warm::warm_restart(&mut rng, k);
            rep.case();
            rep.nontrivial(hash_of(&("warm-restart", k)));
            if o.failed.is_some() {
                continue; // completion is C16's business
            }
            rep.count("hook_events", o.hook_events);
            rep.count("individuals_audited", o.individuals_audited);
            rep.count("second_runs_on_a_reused_state", 1);
            for (comp, loc, msg) in o.stale.iter().take(2) {
                rep.violation(
                    &format!("stale:second-run-on-a-reused-state:after-{comp}:{loc}"),
                    json!({"heuristic": o.variant, "first_objective": format!("{:?}", o.first_fn), "second_objective": format!("{:?}", o.second_fn), "dimension": o.dim, "seed": o.seed, "observed": msg}),
                );
            }
        }
    }
    if rep.counter("hook_events") == 0 {
        rep.inconclusive("hook never reached");
    }
    if rep.distinct_len("templates") < 21 {
        rep.inconclusive("not all 21 templates were audited");
    }
    rep.finish();
}
