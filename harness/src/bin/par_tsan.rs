//! Parallel-path workload for ThreadSanitizer (auxiliary observer of C06 / C08, thorough tier):
//! parallel evaluator under 2-16 threads with perturbed objective latency, and par_experiment.
use mahf::{problems::{evaluate, KnownOptimumProblem}, state::Random, Configuration};
use mv::{
    problems::*,
    templates::{self, CaseMeta, TemplateVisitor},
};

struct V<'a> {
    pools: &'a [rayon::ThreadPool],
    runs: u64,
    evals: u64,
    bad: u64,
}

impl<'a> TemplateVisitor for V<'a> {
    fn visit<P>(&mut self, meta: &CaseMeta, cfg: Configuration<P>, problem: &P)
    where
        P: Instrumented + KnownOptimumProblem,
    {
        for pool in self.pools {
            problem.instr().reset();
            problem.instr().set_perturb(meta.seed | 1);
            let r = pool.install(|| {
                cfg.optimize_with(problem, |s| {
                    s.insert_evaluator(evaluate::Parallel::<P>::new());
                    s.insert(Random::new(meta.seed));
                    Ok(())
                })
                .map(|s| s.evaluations() as u64)
            });
            self.runs += 1;
            match r {
                Ok(e) => {
                    self.evals += e;
                    if e != problem.instr().calls() {
                        println!("MONITOR-VIOLATION {:?}: reported evaluations {e} != objective calls {}", meta.tmpl, problem.instr().calls());
                        self.bad += 1;
                    }
                }
                Err(e) => {
                    println!("MONITOR-VIOLATION {:?}: run failed under the parallel evaluator: {e:#}", meta.tmpl);
                    self.bad += 1;
                }
            }
        }
    }
}

fn main() {
    let mut seed = 1u64;
    let mut it = std::env::args().skip(1);
    while let Some(a) = it.next() {
        if a == "--seed" {
            seed = it.next().and_then(|s| s.parse::<i64>().ok()).unwrap_or(1) as u64;
        }
    }
    let pools: Vec<rayon::ThreadPool> = [2usize, 4, 16].iter().map(|&n| rayon::ThreadPoolBuilder::new().num_threads(n).build().unwrap()).collect();
    let mut v = V { pools: &pools, runs: 0, evals: 0, bad: 0 };
    let cases = templates::cases(true, seed, 4);
    for c in cases.iter().filter(|c| c.n == 5 || c.n == 25) {
        templates::dispatch(c, &mut v, &mut |_m, _e| {});
    }
    // the batch experiment runner
    let scratch = std::env::var("VERIF_SCRATCH").unwrap_or_else(|_| format!("{}/target/scratch/tsan", mv::verif_root().display()));
    let dir = format!("{scratch}/tsan_exp");
    let problems = [templates::real_instance(1)];
    let cfg = mahf::heuristics::ga::real_ga::<Real>(
        mahf::heuristics::ga::RealProblemParameters { population_size: 6, tournament_size: 2, pm: 1.0, deviation: 0.2, pc: 0.7 },
        mahf::conditions::LessThanN::iterations(5),
    )
    .unwrap();
    let mut batches = 0;
    for pool in &pools {
        let r = pool.install(|| {
            mahf::experiments::par_experiment(
                &cfg,
                |s| {
                    s.insert_evaluator(evaluate::Parallel::<Real>::new());
                    Ok(())
                },
                &problems,
                6,
                &dir,
                true,
            )
        });
        batches += 1;
        if let Err(e) = r {
            println!("MONITOR-VIOLATION par_experiment failed: {e:#}");
            v.bad += 1;
        }
    }
    let _ = std::fs::remove_dir_all(&dir);
    println!("TSAN-SUMMARY {{\"parallel_runs\": {}, \"evaluations\": {}, \"experiment_batches\": {}}}", v.runs, v.evals, batches);
    if v.bad > 0 {
        std::process::exit(1);
    }
}
