//! C20 — chemical-reaction steps conserve energy and keep molecules aligned.
use std::sync::Mutex;

use mahf::{
    components::misc::cro::{
        ChemicalReaction, DecompositionUpdate, EnergyBuffer, IntermolecularIneffectiveCollisionUpdate, Molecule, OnWallIneffectiveCollisionUpdate, SynthesisUpdate,
    },
    problems::{KnownOptimumProblem, SingleObjectiveProblem},
    state::{common::Populations, Random},
    verif::StepEvent,
    Component, Configuration, Individual, State,
};
use mv::{
    catch, hash_of, num_workers,
    problems::{tagged, Instrumented, TagP},
    templates::{self, CaseMeta, TemplateVisitor, Tmpl},
    Reporter,
};
use serde_json::json;

#[derive(Clone, Debug, PartialEq)]
struct Snap {
    /// (solution hash, objective) of the main population (bottom-most of the three)
    pop: Vec<(u64, f64)>,
    /// (kinetic energy, num_hit, best objective) per molecule record
    mol: Vec<(f64, u32, f64)>,
    buffer: f64,
    height: usize,
    main_depth: usize,
}

fn snap<P: SingleObjectiveProblem>(state: &State<P>, main_depth: usize, h: impl Fn(&P::Encoding) -> u64) -> Snap {
    let pops = state.populations();
    let pop = pops.try_peek(main_depth).map(|p| p.iter().map(|i| (h(i.solution()), i.get_objective().map(|o| o.value()).unwrap_or(f64::NAN))).collect()).unwrap_or_default();
    let mol = state.borrow::<ChemicalReaction<P>>().iter().map(|m| (m.kinetic_energy, m.num_hit, m.best.get_objective().map(|o| o.value()).unwrap_or(f64::NAN))).collect();
    Snap { pop, mol, buffer: state.get_value::<EnergyBuffer>(), height: pops.len(), main_depth }
}

fn energy(s: &Snap) -> f64 {
    s.pop.iter().map(|p| p.1).sum::<f64>() + s.mol.iter().map(|m| m.0).sum::<f64>() + s.buffer
}

/// The clauses every update must satisfy, whatever it did.
fn judge(op: &str, before: &Snap, after: &Snap) -> Vec<(String, String)> {
    let mut v = Vec::new();
    if before.height < 3 {
        return v;
    }
    if after.height + 2 != before.height {
        v.push((format!("{op}:does-not-consume-exactly-reactant-and-product-populations"), format!("stack height {} -> {}", before.height, after.height)));
        return v;
    }
    if after.pop.len() != after.mol.len() {
        v.push((format!("{op}:molecule-records-and-population-differ-in-length"), format!("population {} individuals, {} molecule records (before: {} / {})", after.pop.len(), after.mol.len(), before.pop.len(), before.mol.len())));
        return v;
    }
    if before.pop.len() != before.mol.len() {
        return v; // the precondition of the clause does not hold: not this operator's doing
    }
    let (e0, e1) = (energy(before), energy(after));
    let scale = before.pop.iter().map(|p| p.1.abs()).sum::<f64>() + before.mol.iter().map(|m| m.0.abs()).sum::<f64>() + before.buffer.abs() + 1.0;
    if e0.is_finite() && !((e1 - e0).abs() <= 1e-9 * scale) {
        v.push((format!("{op}:energy-not-conserved"), format!("sum of objective values + kinetic energies + buffer: {e0} -> {e1} (difference {})", e1 - e0)));
    }
    if let Some((i, m)) = after.mol.iter().enumerate().find(|(_, m)| m.0 < 0.0 || m.0.is_nan()) {
        v.push((format!("{op}:negative-kinetic-energy"), format!("molecule {i} has kinetic energy {}", m.0)));
    }
    if after.buffer < 0.0 || after.buffer.is_nan() {
        v.push((format!("{op}:negative-buffer"), format!("buffer {} -> {}", before.buffer, after.buffer)));
    }
    // a molecule's best memory is never worse than the individual it belongs to (new molecules: equal)
    for (i, (p, m)) in after.pop.iter().zip(after.mol.iter()).enumerate() {
        if m.2 > p.1 {
            v.push((format!("{op}:molecule-record-does-not-belong-to-its-individual"), format!("record {i}: best objective {} is worse than the objective {} of individual {i}", m.2, p.1)));
            break;
        }
    }
    v
}

// ---- prepared reactions ------------------------------------------------------------------------------
const OBJ: [f64; 5] = [-5.0, 0.0, 0.5, 3.0, 40.0];
const KIN: [f64; 4] = [0.0, 0.1, 5.0, 100.0];
const BUF: [f64; 3] = [0.0, 1.0, 1000.0];

fn prepared(rep: &Reporter) {
    let seeds = rep.tier.pick(16u64, 6000u64);
    let mut cells: Vec<(usize, usize, usize, usize, usize, usize)> = Vec::new();
    for op in 0..4 {
        for a in 0..OBJ.len() {
            for b in 0..OBJ.len() {
                for k in 0..KIN.len() {
                    for bu in 0..BUF.len() {
                        for tw in 0..4 {
                            cells.push((op, a, b, k, bu, tw));
                        }
                    }
                }
            }
        }
    }
    std::thread::scope(|s| {
        for range in mv::shards(cells.len(), num_workers()) {
            let cells = &cells;
            let rep = &rep;
            s.spawn(move || {
                for ci in range {
                    let (op, a, b, k, bu, tw) = cells[ci];
                    for seed in 0..seeds {
                        run_prepared(rep, op, OBJ[a], OBJ[b], KIN[k], BUF[bu], tw, seed + 1000 * ci as u64);
                    }
                    rep.nontrivial(hash_of(&("prepared", op, a, b, k, bu, tw)));
                }
            });
        }
    });
}

fn run_prepared(rep: &Reporter, op: usize, o_react: f64, o_prod: f64, kin: f64, buffer: f64, tw: usize, seed: u64) {
    // tw: 0 = all individuals distinct, 1 = index 3 is an identical twin of reactant 2,
    // 2 = the two reactants themselves are identical individuals,
    // 3 = index 0 has the same SOLUTION as reactant 1 but another objective value (as a noisy objective produces):
    //     a different individual, so nothing changes with respect to tw = 0
    let twins = tw != 0;
    // main population: 4 molecules; index 1 (and 2) are the reactants; with `twins`, index 3 is an
    // identical twin of reactant 2 (same solution and objective)
    let o2 = if tw == 2 { o_react } else { 1.5 };
    let pop_vals = [7.0, o_react, o2, if tw == 1 { 1.5 } else { 9.0 }, 11.0];
    let mut main: Vec<Individual<TagP>> = pop_vals.iter().enumerate().map(|(i, v)| tagged(10 + i as u32, Some(*v))).collect();
    if tw == 1 {
        main[3] = main[2].clone();
    }
    if tw == 2 {
        main[2] = main[1].clone();
    }
    if tw == 3 {
        main[0] = tagged(11, Some(7.0));
    }
    let kes = [0.25, kin, 2.0 * kin + 0.125, 3.5, 6.25];
    let molecules: Vec<Molecule<TagP>> = main.iter().zip(kes.iter()).map(|(i, k)| Molecule::new(*k, i.clone())).collect();
    let names = ["OnWallIneffectiveCollisionUpdate", "DecompositionUpdate", "SynthesisUpdate", "IntermolecularIneffectiveCollisionUpdate"];
    let name = names[op];
    let (reactants, products, comp): (Vec<Individual<TagP>>, Vec<Individual<TagP>>, Box<dyn Component<TagP>>) = match op {
        0 => (vec![main[1].clone()], vec![tagged(50, Some(o_prod))], OnWallIneffectiveCollisionUpdate::new([0.0, 0.5, 0.9][(seed % 3) as usize])),
        1 => (vec![main[1].clone()], vec![tagged(50, Some(o_prod)), tagged(51, Some(o_prod / 2.0 + 0.25))], DecompositionUpdate::new()),
        2 => (vec![main[1].clone(), main[2].clone()], vec![tagged(50, Some(o_prod))], SynthesisUpdate::new()),
        _ => (vec![main[1].clone(), main[2].clone()], vec![tagged(50, Some(o_prod)), tagged(51, Some(o_prod / 2.0 + 0.25))], IntermolecularIneffectiveCollisionUpdate::new()),
    };
    let mut st = State::<TagP>::new();
    let mut pops = Populations::<TagP>::new();
    pops.push(main.clone());
    pops.push(reactants.clone());
    pops.push(products.clone());
    st.insert(pops);
    st.insert(ChemicalReaction::<TagP>(molecules));
    st.insert(EnergyBuffer(buffer));
    st.insert(Random::new(seed));
    let h = |s: &u32| *s as u64;
    let before = snap(&st, 2, h);
    let r = catch(|| comp.execute(&TagP, &mut st).map_err(|e| format!("{e:#}")));
    rep.case();
    let case = || json!({"operator": name, "reactant_objective": o_react, "product_objective": o_prod, "reactant_kinetic_energy": kin, "buffer": buffer, "identical_twin_in_population": twins, "twin_kind (1 twin of reactant 2, 2 identical reactants, 3 same solution with another objective value)": tw, "seed": seed});
    match r {
        Ok(Ok(())) => {}
        other => {
            rep.violation(&format!("{name}:fails-on-a-well-formed-state{}", if twins { ":with-identical-individuals" } else { "" }), json!({"case": case(), "result": format!("{other:?}")}));
            return;
        }
    }
    let after = snap(&st, 0, h);
    for (sig, msg) in judge(name, &before, &after) {
        rep.violation(&format!("{sig}{}", if twins { ":with-identical-individuals" } else { "" }), json!({"case": case(), "observed": msg, "before": format!("{before:?}"), "after": format!("{after:?}")}));
    }
    // which slot was replaced / appended / removed
    let accepted = after.pop != before.pop;
    rep.count(if accepted { "prepared_reactions_accepted" } else { "prepared_reactions_rejected" }, 1);
    let total1 = o_react + kin;
    let p0 = (50u64, o_prod);
    let p1 = (51u64, o_prod / 2.0 + 0.25);
    let expect_accept: Option<bool> = match op {
        0 => Some(total1 >= o_prod),
        2 => Some(total1 + o2 + kes[2] >= o_prod),
        3 => Some(total1 + o2 + kes[2] - (p0.1 + p1.1) >= 0.0),
        _ => {
            if total1 >= p0.1 + p1.1 {
                Some(true)
            } else if total1 + buffer < p0.1 + p1.1 {
                Some(false)
            } else {
                None // depends on the random share of the buffer
            }
        }
    };
    if let Some(e) = expect_accept {
        if e != accepted {
            rep.violation(&format!("{name}:{}", if e { "possible-reaction-rejected" } else { "impossible-reaction-accepted" }), json!({"case": case(), "before": format!("{before:?}"), "after": format!("{after:?}")}));
            return;
        }
    }
    if accepted {
        let mut want = before.pop.clone();
        match op {
            0 => want[1] = p0,
            1 => {
                want[1] = p0;
                want.push(p1);
            }
            2 => {
                want[1] = p0;
                want.remove(2);
            }
            _ => {
                want[1] = p0;
                want[2] = p1;
            }
        }
        if after.pop != want {
            rep.violation(&format!("{name}:wrong-slot-replaced-appended-or-removed{}", if twins { ":with-identical-individuals" } else { "" }), json!({"case": case(), "population_after": format!("{:?}", after.pop), "expected": format!("{want:?}")}));
        }
        // untouched molecules keep their record (kinetic energies are unique fingerprints)
        let untouched: Vec<usize> = match op {
            0 | 1 => vec![0, 2, 3, 4],
            _ => vec![0, 3, 4],
        };
        for &i in &untouched {
            // after a synthesis the second reactant (index 2) is gone and later records move up by one
            let j = if op == 2 && i > 2 { i - 1 } else { i };
            if after.mol.get(j).map(|m| m.0.to_bits()) != Some(kes[i].to_bits()) {
                rep.violation(&format!("{name}:record-of-an-uninvolved-molecule-changed-or-moved"), json!({"case": case(), "molecule": i, "records_after": format!("{:?}", after.mol)}));
                break;
            }
        }
    }
}

/// Decompositions whose energy balance is decided in the last bits: objective values around 1e15 - 1e16, products that
/// need a share of the buffer amounting to a few units. Only the clauses every update must satisfy are judged
/// (conservation up to rounding, no negative energy, alignment, stack) - not whether the reaction is accepted.
fn prepared_at_the_rounding_limit(rep: &Reporter) {
    let seeds = rep.tier.pick(300u64, 20_000u64);
    for &o_react in &[1e16f64, 1e15, 3e15] {
        for &extra in &[0.5f64, 1.0, 2.0, 3.0, 8.0] {
            for &buffer in &[1.5f64, 3.0, 10.0, 1e3] {
                for &kin in &[0.0f64, 0.5, 2.0] {
                    rep.nontrivial(hash_of(&("rounding", o_react.to_bits(), extra.to_bits(), buffer.to_bits(), kin.to_bits())));
                    for seed in 0..seeds {
                        // two products that together need `extra` more than the reactant has
                        let p0 = ((o_react + kin + extra) / 2.0).floor() + 1.0;
                        let p1 = (o_react + kin + extra) - p0;
                        let main: Vec<Individual<TagP>> = vec![tagged(10, Some(7.0)), tagged(11, Some(o_react)), tagged(12, Some(1.5))];
                        let kes = [0.25, kin, 3.5];
                        let molecules: Vec<Molecule<TagP>> = main.iter().zip(kes.iter()).map(|(i, k)| Molecule::new(*k, i.clone())).collect();
                        let mut st = State::<TagP>::new();
                        let mut pops = Populations::<TagP>::new();
                        pops.push(main.clone());
                        pops.push(vec![main[1].clone()]);
                        pops.push(vec![tagged(50, Some(p0)), tagged(51, Some(p1))]);
                        st.insert(pops);
                        st.insert(ChemicalReaction::<TagP>(molecules));
                        st.insert(EnergyBuffer(buffer));
                        st.insert(Random::new(seed));
                        let h = |s: &u32| *s as u64;
                        let before = snap(&st, 2, h);
                        let r = catch(|| DecompositionUpdate::new::<TagP>().execute(&TagP, &mut st).map_err(|e| format!("{e:#}")));
                        rep.case();
                        let case = || json!({"operator": "DecompositionUpdate", "reactant_objective": o_react, "reactant_kinetic_energy": kin, "product_objectives": [p0, p1], "buffer": buffer, "seed": seed});
                        if !matches!(r, Ok(Ok(()))) {
                            rep.violation("DecompositionUpdate:fails-on-a-well-formed-state:at-the-rounding-limit", json!({"case": case(), "result": format!("{r:?}")}));
                            continue;
                        }
                        let after = snap(&st, 0, h);
                        rep.count(if after.pop != before.pop { "rounding_limit_reactions_accepted" } else { "rounding_limit_reactions_rejected" }, 1);
                        for (sig, msg) in judge("DecompositionUpdate", &before, &after) {
                            rep.violation(&format!("{sig}:at-the-rounding-limit"), json!({"case": case(), "observed": msg, "before": format!("{before:?}"), "after": format!("{after:?}")}));
                        }
                    }
                }
            }
        }
    }
}

/// Boundary cases of the elementary reactions: an inter-molecular collision whose products need exactly the energy the
/// reactants have (nothing left to distribute), and an on-wall collision whose product is the reactant itself (the
/// move was undone by the repair). Judged by the clauses every update must satisfy.
fn prepared_boundary_cases(rep: &Reporter) {
    let h = |s: &u32| *s as u64;
    for seed in 0..rep.tier.pick(50u64, 2_000u64) {
        for case in 0..5usize {
            let kes = [0.25, 2.0, 4.0, 3.5];
            let main: Vec<Individual<TagP>> = vec![tagged(10, Some(7.0)), tagged(11, Some(3.0)), tagged(12, Some(5.0)), tagged(13, Some(9.0))];
            let molecules: Vec<Molecule<TagP>> = main.iter().zip(kes.iter()).map(|(i, k)| Molecule::new(*k, i.clone())).collect();
            let (name, reactants, products, comp): (&str, Vec<Individual<TagP>>, Vec<Individual<TagP>>, Box<dyn Component<TagP>>) = match case {
                // 3 + 2 + 5 + 4 == 6 + 8: collision energy exactly 0
                0 => ("IntermolecularIneffectiveCollisionUpdate:exactly-enough-energy", vec![main[1].clone(), main[2].clone()], vec![tagged(50, Some(6.0)), tagged(51, Some(8.0))], IntermolecularIneffectiveCollisionUpdate::new()),
                // the on-wall move came back to the same point
                1 => ("OnWallIneffectiveCollisionUpdate:product-is-the-reactant", vec![main[1].clone()], vec![main[1].clone()], OnWallIneffectiveCollisionUpdate::new([0.0, 0.5, 0.9][(seed % 3) as usize])),
                // synthesis needing exactly what the two reactants have: 3 + 2 + 5 + 4 == 14
                2 => ("SynthesisUpdate:exactly-enough-energy", vec![main[1].clone(), main[2].clone()], vec![tagged(50, Some(14.0))], SynthesisUpdate::new()),
                // a synthesis handed two products (its crossover passed both parents on): it may refuse; if it reports success,
                // exactly the two populations on top are consumed
                4 => ("SynthesisUpdate:two-products", vec![main[1].clone(), main[2].clone()], vec![tagged(50, Some(2.0)), tagged(51, Some(3.0))], SynthesisUpdate::new()),
                // decomposition needing exactly the reactant's energy (no buffer): 3 + 2 == 1 + 4
                _ => ("DecompositionUpdate:exactly-enough-energy", vec![main[1].clone()], vec![tagged(50, Some(1.0)), tagged(51, Some(4.0))], DecompositionUpdate::new()),
            };
            let mut st = State::<TagP>::new();
            let mut pops = Populations::<TagP>::new();
            pops.push(main.clone());
            pops.push(reactants);
            pops.push(products);
            st.insert(pops);
            st.insert(ChemicalReaction::<TagP>(molecules));
            st.insert(EnergyBuffer(1.0));
            st.insert(Random::new(seed));
            let before = snap(&st, 2, h);
            let r = catch(|| comp.execute(&TagP, &mut st).map_err(|e| format!("{e:#}")));
            rep.case();
            rep.nontrivial(hash_of(&("boundary", case, seed % 3)));
            if case == 4 {
                // refusing is fine (what a refused synthesis leaves on the stack is not judged - the input is malformed);
                // reporting success must satisfy the clauses below
                if !matches!(r, Ok(Ok(()))) {
                    continue;
                }
            } else if !matches!(r, Ok(Ok(()))) {
                rep.violation(&format!("{name}:fails-on-a-well-formed-state"), json!({"seed": seed, "result": format!("{r:?}")}));
                continue;
            }
            let after = snap(&st, 0, h);
            let op = name.split(':').next().unwrap();
            for (sig, msg) in judge(op, &before, &after) {
                let tail = sig.split_once(':').map(|x| x.1).unwrap_or("");
                rep.violation(&format!("{name}:{tail}"), json!({"seed": seed, "observed": msg, "before": format!("{before:?}"), "after": format!("{after:?}")}));
            }
            rep.count("boundary_case_reactions", 1);
        }
    }
}

// ---- template runs -----------------------------------------------------------------------------------------
#[derive(Default)]
struct Rec {
    before: Option<Snap>,
    /// what the last update of this reaction system left behind: its molecules and their records belong to it alone
    last_after: Option<Snap>,
    updates: u64,
    accepted: u64,
    violations: Vec<(String, String)>,
}

#[derive(Default)]
struct Recs {
    by_depth: std::collections::BTreeMap<usize, Rec>,
    closed: Vec<Rec>,
}

/// Step-observer body shared by template runs and harness-assembled variants.
fn observe_cro<P: Instrumented>(recs: &Mutex<Recs>, ev: StepEvent<'_, P>, state: &State<P>) {
    let StepEvent::BlockChild { before, component, .. } = ev else { return };
    let name = mv::sniff::name_of(component);
    let depth = mv::observe::scope_depth(state);
    let mut all = recs.lock().unwrap();
    let gone: Vec<usize> = all.by_depth.keys().copied().filter(|d| *d > depth).collect();
    for d in gone {
        let r = all.by_depth.remove(&d).unwrap();
        all.closed.push(r);
    }
    let r = all.by_depth.entry(depth).or_default();
    if name == "ChemicalReactionInit" {
        // a (re-)initialisation creates fresh records for the current population
        r.last_after = None;
        if !before {
            let pops = state.populations();
            let n = pops.get_current().map(|c| c.len()).unwrap_or(0);
            let m = state.borrow::<ChemicalReaction<P>>().len();
            if n != m {
                r.violations.push(("ChemicalReactionInit:molecule-records-and-population-differ-in-length".into(), format!("{n} individuals, {m} molecule records after the initialisation")));
            }
        }
        return;
    }
    if !name.ends_with("Update") || name == "BestIndividualUpdate" || !name.contains("Collision") && !name.contains("Decomposition") && !name.contains("Synthesis") {
        return;
    }
    if before {
        let b = snap(state, 2, |s| P::sol_hash(s));
        if b.height >= 3 {
            if b.pop.len() != b.mol.len() {
                r.violations.push(("between-updates:molecule-records-and-population-differ-in-length".into(), format!("before {name}: {} individuals, {} molecule records", b.pop.len(), b.mol.len())));
            } else if let Some(last) = &r.last_after {
                let same_pop = last.pop.len() == b.pop.len() && last.pop.iter().zip(&b.pop).all(|(x, y)| x.0 == y.0 && x.1.to_bits() == y.1.to_bits());
                let same_mol = last.mol.len() == b.mol.len() && last.mol.iter().zip(&b.mol).all(|(x, y)| x.0.to_bits() == y.0.to_bits() && x.1 == y.1 && x.2.to_bits() == y.2.to_bits());
                if !same_pop || !same_mol || last.buffer.to_bits() != b.buffer.to_bits() {
                    r.violations.push(("between-updates:molecules-records-or-buffer-changed-by-something-else".into(), format!("before {name}: population / records / buffer differ from what the previous reaction update left (population same: {same_pop}, records same: {same_mol}, buffer {} -> {})", last.buffer, b.buffer)));
                }
            }
        }
        r.before = Some(b);
    } else if let Some(b) = r.before.take() {
        let a = snap(state, 0, |s| P::sol_hash(s));
        r.updates += 1;
        if a.pop != b.pop {
            r.accepted += 1;
        }
        let v = judge(&name, &b, &a);
        r.violations.extend(v);
        r.last_after = Some(a);
    }
}

fn report_cro(rep: &Reporter, recs: &Mutex<Recs>, prefix: &str, meta: serde_json::Value) -> (u64, u64) {
    let mut all = recs.lock().unwrap();
    let by_depth = std::mem::take(&mut all.by_depth);
    let closed = std::mem::take(&mut all.closed);
    rep.count("nested_reaction_systems_observed", closed.len() as u64);
    let (mut updates, mut accepted) = (0, 0);
    let mut seen = std::collections::HashSet::new();
    for r in by_depth.into_values().chain(closed) {
        updates += r.updates;
        accepted += r.accepted;
        for (sig, msg) in &r.violations {
            if seen.insert(sig.clone()) {
                rep.violation(&format!("{prefix}:{sig}"), json!({"meta": meta, "observed": msg}));
            }
        }
    }
    rep.count("template_reaction_updates_observed", updates);
    rep.count("template_reactions_accepted", accepted);
    (updates, accepted)
}

struct V<'r> {
    rep: &'r Reporter,
}
impl<'r> TemplateVisitor for V<'r> {
    fn visit<P>(&mut self, meta: &CaseMeta, cfg: Configuration<P>, problem: &P)
    where
        P: Instrumented + KnownOptimumProblem,
    {
        let rep = self.rep;
        let rec = Mutex::new(Recs::default());
        let _ = mv::observe::run_observed(&cfg, problem, meta.seed, false, None, |ev, _p, state| observe_cro(&rec, ev, state));
        rep.case();
        rep.nontrivial(hash_of(&(&meta.params, &meta.instance, meta.n, meta.seed)));
        let (updates, accepted) = report_cro(rep, &rec, "template", json!(meta));
        if rep.want_sample() && updates > 10 {
            rep.sample(json!({"meta": meta, "reaction_updates": updates, "accepted": accepted}));
        }
    }
}

/// Harness-assembled reaction systems on a real-valued problem: (0) the generic `cro` loop as the body of an outer loop
/// (epochs: the initialisation component executes again at the start of every epoch), (1) a second, small reaction system
/// run to completion inside a scope whenever the outer one repairs its products.
fn assembled(rep: &Reporter, n: usize) {
    use mahf::{
        components::{boundary, initialization, mutation, recombination, selection, utils, Block, Scope},
        conditions::{self, LessThanN, RandomChance},
        heuristics::cro,
        identifier::{Global, A, B},
    };
    use mv::problems::{Real, RealFn};
    #[derive(Clone, serde::Serialize)]
    struct PopTop;
    impl Component<Real> for PopTop {
        fn execute(&self, _p: &Real, state: &mut State<Real>) -> mahf::ExecResult<()> {
            state.populations_mut().pop();
            Ok(())
        }
    }
    let params = |ke: f64, buffer: f64, constraints: Box<dyn Component<Real>>| cro::Parameters::<Real> {
        mole_coll: 0.5,
        kinetic_energy_lr: 0.3,
        initial_kinetic_energy: ke,
        buffer,
        single_mole_selection: selection::RandomWithoutRepetition::new(1),
        decomposition_criterion: conditions::cro::DecompositionCriterion::new(3),
        decomposition: Block::new([utils::populations::DuplicatePopulation::new(), mutation::NormalMutation::<A>::new_with_id(0.3, 0.5)]),
        on_wall_ineffective_collision: mutation::NormalMutation::<B>::new_with_id(0.1, 1.0),
        double_mole_selection: selection::RandomWithoutRepetition::new(2),
        synthesis_criterion: conditions::cro::SynthesisCriterion::new(2.0),
        synthesis: recombination::UniformCrossover::new_insert_single(1.),
        intermolecular_ineffective_collision: mutation::UniformMutation::new_bound(1.),
        constraints,
    };
    /// Between two phases something else trims the population (a replacement, a restart keeping the best few).
    #[derive(Clone, serde::Serialize)]
    struct KeepFirst(usize);
    impl Component<Real> for KeepFirst {
        fn execute(&self, _p: &Real, state: &mut State<Real>) -> mahf::ExecResult<()> {
            state.populations_mut().current_mut().truncate(self.0);
            Ok(())
        }
    }
    let mut rng = mv::SplitMix64::new(rep.seed).fork(0xC20_A);
    for k in 0..n {
        let problem = Real::new(1 + rng.usize(3), -2.0, 3.0, *rng.pick(&[RealFn::Sphere, RealFn::Rastrigin, RealFn::ShiftedSphere]));
        let size = 2 + rng.below(6) as u32;
        let seed = rng.below(1 << 40);
        let (kind, cfg): (&str, Configuration<Real>) = if k % 3 == 2 {
            // two phases with the population trimmed in between: the second phase starts from one record per remaining individual
            (
                "phases-with-a-trimmed-population",
                Configuration::builder()
                    .do_(initialization::RandomSpread::new(size + 3))
                    .evaluate()
                    .update_best_individual()
                    .while_(LessThanN::iterations(40), |b| {
                        b.do_(cro::cro::<Real, Global>(params(10.0, 5.0, boundary::Saturation::new()), RandomChance::new(0.7))).do_(Box::new(KeepFirst(1 + (k / 3) % 3)) as Box<dyn Component<Real>>)
                    })
                    .build(),
            )
        } else if k % 3 == 0 {
            (
                "epochs",
                Configuration::builder()
                    .do_(initialization::RandomSpread::new(size))
                    .evaluate()
                    .update_best_individual()
                    .while_(LessThanN::iterations(60), |b| b.do_(cro::cro::<Real, Global>(params(10.0, 5.0, boundary::Saturation::new()), RandomChance::new(0.8))))
                    .build(),
            )
        } else {
            let inner = Scope::new(vec![
                initialization::RandomSpread::new(2 + rng.below(3) as u32),
                mahf::components::evaluation::PopulationEvaluator::new(),
                cro::cro::<Real, Global>(params(1.0, 0.5, boundary::Saturation::new()), LessThanN::iterations(1 + rng.below(4) as u32)),
                Box::new(PopTop) as Box<dyn Component<Real>>,
            ]);
            (
                "nested-in-a-scope",
                Configuration::builder()
                    .do_(initialization::RandomSpread::new(size))
                    .evaluate()
                    .update_best_individual()
                    .do_(cro::cro::<Real, Global>(params(10.0, 5.0, Block::new([boundary::Saturation::new(), inner])), LessThanN::iterations(25)))
                    .build(),
            )
        };
        let rec = Mutex::new(Recs::default());
        let res = mv::observe::run_observed(&cfg, &problem, seed, false, None, |ev, _p, state| observe_cro(&rec, ev, state));
        rep.case();
        rep.nontrivial(hash_of(&("assembled", k)));
        rep.count("assembled_runs", 1);
        let meta = json!({"kind": kind, "population": size, "seed": seed, "dimension": problem.domains.len(), "objective": format!("{:?}", problem.f)});
        report_cro(rep, &rec, &format!("assembled:{kind}"), meta.clone());
        if !matches!(res, Ok(Ok(_))) {
            rep.violation(&format!("assembled:{kind}:run-failed"), json!({"meta": meta, "result": format!("{:?}", res.map(|r| r.map(|_| ())))}));
        }
    }
}

fn main() {
    let rep = Reporter::from_args("C20");
    rep.rule("(a) each of the four reaction updates on prepared three-population states (a main population of 5 molecules with unique kinetic energies as fingerprints, optionally containing an identical twin of a reactant, or an individual with a reactant's solution but another objective value; reactant and product populations on top) over reactant/product objective values {-5,0,.5,3,40}^2 x kinetic energies {0,.1,5,100} x buffers {0,1,1000} x seeds; (b) every reaction update of real_cro runs and of harness-assembled systems (the generic cro loop as the body of an outer loop, so that its initialisation executes again every epoch, also with the population trimmed between the phases; a second reaction system run to completion inside a scope in the middle of the outer one's reactions; records per scope depth) observed at the step-observer hook; between two updates of a system its population, records and buffer are bit-identical and aligned. Per update: sum of objective values + kinetic energies + buffer unchanged within 1e-9 relative, no negative kinetic energy or buffer, one molecule record per individual with record i belonging to individual i (best memory never worse than the individual; in (a) also which slot was replaced / appended / removed and that records of uninvolved molecules did not move), stack height reduced by exactly two also when the reaction is rejected; in (a) acceptance as the energies dictate. distinct_nontrivial = distinct prepared cells + distinct template runs");
    rep.assume("finite objective values; the main population is the third population from the top when an update starts");
    prepared(&rep);
    prepared_at_the_rounding_limit(&rep);
    prepared_boundary_cases(&rep);
    let cases: Vec<_> = templates::cases(false, rep.seed, rep.tier.pick(8, 300)).into_iter().filter(|c| c.tmpl == Tmpl::Cro && c.n > 0).collect();
    let n = cases.len();
    std::thread::scope(|s| {
        for range in mv::shards(n, num_workers()) {
            let cases = &cases;
            let rep = &rep;
            s.spawn(move || {
                let mut v = V { rep };
                for i in range {
                    let mut c = cases[i];
                    c.n = c.n.max(40) * 5; // long runs: populations shrink and grow
                    templates::dispatch(&c, &mut v, &mut |_m, _e| {});
                }
            });
        }
    });
    rep.count("template_runs", n as u64);
    assembled(&rep, rep.tier.pick(200, 20_000));
    if rep.counter("prepared_reactions_accepted") == 0 || rep.counter("prepared_reactions_rejected") == 0 {
        rep.inconclusive("prepared reactions did not produce both accepted and rejected outcomes");
    }
    if rep.counter("template_reaction_updates_observed") == 0 {
        rep.inconclusive("hook never reached for the CRO updates");
    }
    rep.sample(json!({"prepared": {"operator": "SynthesisUpdate", "reactant_objective": 3.0, "product_objective": 0.5, "reactant_kinetic_energy": 5.0, "buffer": 1.0, "identical_twin_in_population": true}}));
    rep.finish();
}
