//! C17 — simulated-annealing acceptance follows the Metropolis rule; geometric cooling multiplies once.
use std::sync::Mutex;

use mahf::{
    components::{
        mapping::sa::GeometricCooling,
        replacement::sa::{ExponentialAnnealingAcceptance, Temperature},
    },
    lens::ValueOf,
    problems::KnownOptimumProblem,
    state::{common::Populations, Random},
    verif::StepEvent,
    Component, Configuration, Individual, State,
};
use mv::{
    catch, hash_of, num_workers,
    problems::{tagged, Instrumented, TagP},
    templates::{self, CaseMeta, TemplateVisitor, Tmpl},
    Reporter,
};
use serde_json::json;

fn view(i: &Individual<TagP>) -> (u32, f64) {
    (*i.solution(), i.objective().value())
}

/// One acceptance step on [below, [current], [candidate]]; returns the surviving tag.
fn accept_once(f_cur: f64, f_cand: f64, t: f64, seed: u64) -> Result<u32, (String, String)> {
    let comp = ExponentialAnnealingAcceptance::new::<TagP>(t);
    let mut st = State::<TagP>::new();
    let mut pops = Populations::<TagP>::new();
    pops.push(vec![tagged(9, Some(5.5)), tagged(8, Some(6.5))]);
    pops.push(vec![tagged(1, Some(f_cur))]);
    pops.push(vec![tagged(2, Some(f_cand))]);
    st.insert(pops);
    st.insert(Random::new(seed));
    // every fourth seed: the step runs inside a scope opened over a state in which another acceptance component with a
    // temperature from the opposite regime has been initialised (SA used as the inner search of an outer SA): the inner
    // one must work with its own temperature and leave the outer one alone
    let under_twin = seed % 4 == 3;
    let t_other = if t >= 1.0 { 1e-300 } else { 1e12 };
    let mut inner_t = None;
    let r = catch(|| {
        if under_twin {
            ExponentialAnnealingAcceptance::new::<TagP>(t_other).init(&TagP, &mut st).map_err(|e| e.to_string())?;
            let child = st
                .with_inner_state(|inner| {
                    comp.init(&TagP, inner)?;
                    comp.execute(&TagP, inner)
                })
                .map_err(|e| format!("{e:#}"))?;
            inner_t = child.try_get_value::<Temperature>().ok();
            Ok(())
        } else {
            comp.init(&TagP, &mut st).map_err(|e| e.to_string())?;
            comp.execute(&TagP, &mut st).map_err(|e| format!("{e:#}"))
        }
    });
    match r {
        Ok(Ok(())) => {}
        other => return Err(("acceptance:fails-on-valid-state".into(), format!("{other:?}"))),
    }
    if under_twin {
        if inner_t.map(f64::to_bits) != Some(t.to_bits()) {
            return Err(("acceptance:inside-a-scope:does-not-work-with-its-own-temperature".into(), format!("temperature state of the scope after the step: {inner_t:?}, constructed with {t}, enclosing scope holds {t_other}")));
        }
        if st.get_value::<Temperature>().to_bits() != t_other.to_bits() {
            return Err(("acceptance:inside-a-scope:changes-the-enclosing-temperature".into(), format!("{}", st.get_value::<Temperature>())));
        }
    }
    let pops = st.populations();
    if pops.len() != 2 || pops.current().len() != 1 {
        return Err(("acceptance:does-not-reduce-the-two-populations-to-one-survivor".into(), format!("stack height {}, top size {}", pops.len(), pops.get_current().map(|c| c.len()).unwrap_or(0))));
    }
    let below: Vec<(u32, f64)> = pops.peek(1).iter().map(view).collect();
    if below != vec![(9, 5.5), (8, 6.5)] {
        return Err(("acceptance:population-below-touched".into(), format!("{below:?}")));
    }
    let s = view(&pops.current()[0]);
    if !((s.0 == 1 && s.1.to_bits() == f_cur.to_bits()) || (s.0 == 2 && s.1.to_bits() == f_cand.to_bits())) {
        return Err(("acceptance:survivor-is-neither-current-nor-candidate".into(), format!("{s:?}")));
    }
    if !under_twin && st.get_value::<Temperature>().to_bits() != t.to_bits() {
        return Err(("acceptance:changes-the-temperature".into(), format!("{}", st.get_value::<Temperature>())));
    }
    Ok(s.0)
}

/// States the acceptance step cannot work on (a current or candidate population that is empty): it refuses - and a refused step leaves the populations as they were, so that nothing is lost.
fn malformed(rep: &Reporter) {
    // (populations with more than one individual are not probed: the step then works on the first ones and its own
    // post-condition objects afterwards - outside what the property speaks about)
    let shapes: [(usize, usize); 3] = [(1, 0), (0, 1), (0, 0)];
    for (k, &(n_cur, n_cand)) in shapes.iter().enumerate() {
        for &t in &[0.0f64, 1.0, 1e6] {
            rep.case();
            rep.nontrivial(hash_of(&("malformed", k, t.to_bits())));
            let comp = ExponentialAnnealingAcceptance::new::<TagP>(t);
            let mut st = State::<TagP>::new();
            let mut pops = Populations::<TagP>::new();
            pops.push(vec![tagged(9, Some(5.5))]);
            pops.push((0..n_cur).map(|i| tagged(1 + i as u32, Some(2.0 + i as f64))).collect());
            pops.push((0..n_cand).map(|i| tagged(20 + i as u32, Some(1.0 + i as f64))).collect());
            st.insert(pops);
            st.insert(Random::new(k as u64));
            let shape = |st: &State<TagP>| -> Vec<Vec<(u32, f64)>> {
                let pops = st.populations();
                let mut v = Vec::new();
                let mut d = 0;
                while let Some(p) = pops.try_peek(d) {
                    v.push(p.iter().map(view).collect());
                    d += 1;
                }
                v
            };
            let before = shape(&st);
            let r = catch(|| {
                comp.init(&TagP, &mut st).map_err(|e| e.to_string())?;
                comp.execute(&TagP, &mut st).map_err(|e| format!("{e:#}"))
            });
            let refused = !matches!(r, Ok(Ok(())));
            let after = shape(&st);
            if refused && after != before {
                rep.violation("acceptance:refused-step-changes-or-loses-populations", json!({"current_population_size": n_cur, "candidate_population_size": n_cand, "temperature": t, "result": format!("{r:?}"), "stack_before (top first)": format!("{before:?}"), "stack_after": format!("{after:?}")}));
            }
            rep.count(if refused { "malformed_states_refused" } else { "malformed_states_accepted" }, 1);
        }
    }
}

fn acceptance_grid(rep: &Reporter) {
    let objs = [-3.0, 0.0, -0.0, 1e-20, 5e-18, 2e-17, 1.0, 1.0 + 1e-9, 2.0, 50.0, f64::MAX, f64::INFINITY];
    // incl. temperatures the cooling schedule reaches late in a run (alpha = 0 gives exactly 0)
    // (1e-17 and 1e-20: below f64::EPSILON, with margins of the same order among the objective values)
    let temps = [0.0, 1e-300, 1e-24, 1e-20, 1e-17, 1e-12, 1e-3, 0.1, 1.0, 10.0, 1e6, 1e12, 1e300];
    let n = rep.tier.pick(5_000u64, 200_000u64);
    let band = ((2.0f64 / 1e-10).ln() / (2.0 * n as f64)).sqrt();
    rep.set("seeds_per_cell", json!(n));
    rep.set("hoeffding_band", json!(band));
    let mut cells: Vec<(f64, f64, f64)> = Vec::new();
    for &a in &objs {
        for &b in &objs {
            for &t in &temps {
                cells.push((a, b, t));
            }
        }
    }
    std::thread::scope(|s| {
        for range in mv::shards(cells.len(), num_workers()) {
            let cells = &cells;
            let rep = &rep;
            s.spawn(move || {
                for i in range {
                    let (f_cur, f_cand, t) = cells[i];
                    let mut accepted = 0u64;
                    let mut failed = false;
                    for seed in 0..n {
                        match accept_once(f_cur, f_cand, t, seed.wrapping_mul(0x9E37) ^ rep.seed) {
                            Ok(tag) => accepted += (tag == 2) as u64,
                            Err((sig, msg)) => {
                                rep.violation(&sig, json!({"f_current": f_cur, "f_candidate": f_cand, "temperature": t, "seed": seed, "observed": msg}));
                                failed = true;
                                break;
                            }
                        }
                    }
                    rep.cases(n);
                    rep.nontrivial(hash_of(&(f_cur.to_bits(), f_cand.to_bits(), t.to_bits())));
                    if failed {
                        continue;
                    }
                    let freq = accepted as f64 / n as f64;
                    let class = if f_cand < f_cur { "better" } else if f_cand == f_cur { "equal" } else { "worse" };
                    let case = || json!({"f_current": f_cur, "f_candidate": f_cand, "temperature": t, "seeds": n, "accepted": accepted, "frequency": freq});
                    if f_cand <= f_cur {
                        if accepted != n {
                            rep.violation(&format!("acceptance:{class}-candidate-not-always-accepted{}", if f_cand.is_infinite() { ":infinite" } else { "" }), case());
                        }
                    } else {
                        let p = (-(f_cand - f_cur) / t).exp();
                        let ok = if p < 1e-12 { accepted == 0 } else if p > 1.0 - 1e-12 { accepted == n } else { (freq - p).abs() <= band };
                        if !ok {
                            let kind = if freq > p { "accepted-too-often" } else { "accepted-too-rarely" };
                            rep.violation(&format!("acceptance:worse-candidate-{kind}"), json!({"case": case(), "metropolis_probability": p, "band": band}));
                        }
                    }
                }
            });
        }
    });
    rep.count("acceptance_cells", cells.len() as u64);
}

fn cooling(rep: &Reporter) {
    for &alpha in &[0.0f64, 0.5, 0.9, 0.999, 0.123456789, 1.0 - f64::EPSILON] {
        for &t0 in &[1.0f64, 1e-3, 1e6, 100.0, 1e-300] {
            rep.case();
            rep.nontrivial(hash_of(&("cool", alpha.to_bits(), t0.to_bits())));
            let comp = match GeometricCooling::new::<TagP>(alpha, ValueOf::<Temperature>::new()) {
                Ok(c) => c,
                Err(e) => {
                    rep.violation("cooling:rejects-valid-alpha", json!({"alpha": alpha, "error": e.to_string()}));
                    continue;
                }
            };
            let mut st = State::<TagP>::new();
            st.insert(Temperature(t0));
            st.insert(Random::new(1));
            let mut want = t0;
            let steps = rep.tier.pick(1200, 50_000);
            for k in 0..steps {
                let r = catch(|| comp.execute(&TagP, &mut st).map_err(|e| e.to_string()));
                want *= alpha;
                let got = st.get_value::<Temperature>();
                if !matches!(r, Ok(Ok(()))) || got.to_bits() != want.to_bits() {
                    let kind = if want < 1e-15 && got > want { "stops-cooling-near-zero" } else { "not-exactly-one-multiplication" };
                    rep.violation(&format!("cooling:{kind}"), json!({"alpha": alpha, "t_0": t0, "execution": k + 1, "temperature": got, "expected": want, "result": format!("{r:?}")}));
                    break;
                }
            }
            rep.count("cooling_executions", steps as u64);
        }
    }
    for &bad in &[1.0, 1.5, -0.1, f64::NAN, f64::INFINITY] {
        rep.case();
        if GeometricCooling::new::<TagP>(bad, ValueOf::<Temperature>::new()).is_ok() {
            rep.violation("cooling:accepts-alpha-outside-[0,1)", json!({"alpha": format!("{bad}")}));
        }
    }
}

// ---- template runs: every acceptance / cooling step observed at the hook --------------------------------
#[derive(Default)]
struct Rec {
    before: Option<(Vec<(u64, f64)>, Vec<(u64, f64)>, f64)>,
    t_before: Option<f64>,
    steps: u64,
    coolings: u64,
    violations: Vec<(String, String)>,
}

struct V<'r> {
    rep: &'r Reporter,
}
impl<'r> TemplateVisitor for V<'r> {
    fn visit<P>(&mut self, meta: &CaseMeta, cfg: Configuration<P>, problem: &P)
    where
        P: Instrumented + KnownOptimumProblem,
    {
        let rep = self.rep;
        let rec = Mutex::new(Rec::default());
        let alpha: f64 = meta.params.split("alpha=").nth(1).and_then(|s| s.split(' ').next()).and_then(|s| s.parse().ok()).unwrap_or(f64::NAN);
        let _ = mv::observe::run_observed(&cfg, problem, meta.seed, false, None, |ev, _p, state| {
            if let StepEvent::BlockChild { before, component, .. } = ev {
                let name = mv::sniff::name_of(component);
                let mut r = rec.lock().unwrap();
                if name == "ExponentialAnnealingAcceptance" {
                    let pops = state.populations();
                    let snap = |d: usize| -> Vec<(u64, f64)> { pops.try_peek(d).map(|p| p.iter().map(|i| (P::sol_hash(i.solution()), i.get_objective().map(|o| o.value()).unwrap_or(f64::NAN))).collect()).unwrap_or_default() };
                    if before {
                        r.before = Some((snap(1), snap(0), state.get_value::<Temperature>()));
                    } else if let Some((cur, cand, _t)) = r.before.take() {
                        r.steps += 1;
                        let now = snap(0);
                        if cur.len() != 1 || cand.len() != 1 || now.len() != 1 {
                            r.violations.push(("template:acceptance-populations-not-single".into(), format!("current {cur:?} candidate {cand:?} survivor {now:?}")));
                        } else if now[0] != cur[0] && now[0] != cand[0] {
                            r.violations.push(("template:survivor-is-neither-current-nor-candidate".into(), format!("current {cur:?} candidate {cand:?} survivor {now:?}")));
                        } else if cand[0].1 <= cur[0].1 && now[0] != cand[0] {
                            r.violations.push(("template:candidate-at-least-as-good-but-rejected".into(), format!("current {cur:?} candidate {cand:?} survivor {now:?}")));
                        }
                    }
                } else if name == "GeometricCooling" {
                    let t = state.try_get_value::<Temperature>().ok();
                    if before {
                        r.t_before = t;
                    } else if let (Some(t0), Some(t1)) = (r.t_before.take(), t) {
                        r.coolings += 1;
                        if t1.to_bits() != (t0 * alpha).to_bits() {
                            r.violations.push(("template:cooling-not-one-multiplication".into(), format!("temperature {t0} -> {t1}, alpha {alpha}")));
                        }
                    }
                }
            }
        });
        rep.case();
        rep.nontrivial(hash_of(&(meta.tmpl, &meta.params, meta.seed, meta.n)));
        let r = rec.lock().unwrap();
        rep.count("template_acceptance_steps_observed", r.steps);
        rep.count("template_cooling_steps_observed", r.coolings);
        for (sig, msg) in r.violations.iter().take(2) {
            rep.violation(sig, json!({"meta": meta, "observed": msg}));
        }
    }
}

fn main() {
    let rep = Reporter::from_args("C17");
    rep.rule("prepared three-population states [untouched, [current], [candidate]] of tagged individuals over (f_current, f_candidate) in {-3,0,1e-20,1,1+1e-9,2,50,MAX,+inf}^2 x T in {0,1e-300,1e-24,1e-12,1e-3,.1,1,10,1e6,1e12,1e300} x N seeds: survivor and stack shape per run; candidate <= current must be accepted for every seed; a worse candidate must be accepted with a frequency inside the Hoeffding band around exp(-delta/T) (never for p<1e-12, always for p>1-1e-12); GeometricCooling over alpha x T0 for >=1200 consecutive executions, bit-exact T*alpha each time, alpha outside [0,1) rejected; plus every acceptance and cooling step of the two SA templates observed at the hook. distinct_nontrivial = distinct (f_current, f_candidate, T) cells + cooling cells + template runs");
    rep.assume("candidate = top population (the perturbed copy), current = the one below, as in the SA template; frequency band for a false-alarm probability of 1e-10 per cell");
    malformed(&rep);
    acceptance_grid(&rep);
    cooling(&rep);
    let cases: Vec<_> = templates::cases(rep.quick(), rep.seed, rep.tier.pick(4, 400)).into_iter().filter(|c| matches!(c.tmpl, Tmpl::SaReal | Tmpl::SaPerm)).collect();
    let mut v = V { rep: &rep };
    for c in &cases {
        templates::dispatch(c, &mut v, &mut |_m, _e| {});
    }
    if rep.counter("template_acceptance_steps_observed") == 0 {
        rep.inconclusive("hook never reached in the SA templates");
    }
    rep.sample(json!({"f_current": 1.0, "f_candidate": 2.0, "temperature": 1.0, "expected_acceptance_probability": (-1.0f64).exp()}));
    rep.finish();
}
