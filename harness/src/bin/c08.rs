//! C08 — same seed, same run: independent of evaluator, threads, scheduling and cloning.
use mahf::{
    conditions::{common::PartialEqChecker, ChangeOf, EveryN},
    lens::common::{BestObjectiveValueLens, BestSolutionLens, PopulationSizeLens},
    problems::{evaluate, KnownOptimumProblem},
    state::Random,
    Configuration, ExecResult, State,
};
use mv::{
    hash_of, num_workers,
    observe::run_digest,
    pipelines::{bits_pipeline, perm_pipeline, real_pipeline},
    problems::*,
    templates::{self, CaseMeta, TemplateVisitor},
    Reporter, SplitMix64,
};
use rand::{rngs::StdRng, RngCore};
use serde_json::{json, Value};

#[derive(Clone, Copy, Debug)]
enum Backend {
    Default,
    Std,
}

/// Screening stage registered under identifier A: gives every individual the same provisional value.
struct Screen<P>(std::marker::PhantomData<fn() -> P>);
impl<P: Instrumented> evaluate::Evaluate for Screen<P> {
    type Problem = P;
    fn evaluate(&mut self, _problem: &P, _state: &mut State<P>, individuals: &mut [mahf::Individual<P>]) {
        for i in individuals {
            i.evaluate_with(|_| 1.0f64.try_into().unwrap());
        }
    }
}

fn setup<P: Instrumented>(state: &mut State<P>, parallel: bool) -> ExecResult<()> {
    if parallel {
        state.insert_evaluator(evaluate::Parallel::<P>::new());
    } else {
        state.insert_evaluator(evaluate::Sequential::<P>::new());
    }
    state.insert_evaluator_as::<mahf::identifier::A>(Screen::<P>(std::marker::PhantomData));
    state.configure_log(|c| {
        c.with_common(EveryN::iterations(1))
            .with(ChangeOf::new(PartialEqChecker::new(), BestObjectiveValueLens::<P>::new()), BestObjectiveValueLens::<P>::entry())
            .with(EveryN::iterations(2), PopulationSizeLens::<P>::entry());
        Ok(())
    })
}

/// One run; returns the digest or the error text.
fn run<P: Instrumented>(cfg: &Configuration<P>, problem: &P, seed: u64, backend: Backend, parallel: bool, pool: Option<&rayon::ThreadPool>, nonce: u64) -> Result<Value, String> {
    problem.instr().reset();
    problem.instr().set_perturb(nonce);
    let go = || {
        mv::catch(|| {
            cfg.optimize_with(problem, |state| {
                state.insert(match backend {
                    Backend::Default => Random::new(seed),
                    Backend::Std => Random::with_rng::<StdRng>(seed),
                });
                setup(state, parallel)
            })
            .map(|s| run_digest(&s))
            .map_err(|e| format!("error: {e:#}"))
        })
    };
    let r = match pool {
        Some(p) => p.install(go),
        None => go(),
    };
    problem.instr().set_perturb(0);
    match r {
        Ok(r) => r,
        Err(p) => Err(format!("panic: {p}")),
    }
}

/// The same run, but driven through `Configuration::run` on a child state opened over a prepared state (what a
/// component embedding a sub-configuration does); the digest is taken inside, where everything is visible.
fn run_nested<P: Instrumented>(cfg: &Configuration<P>, problem: &P, seed: u64) -> Result<(Value, bool), String> {
    problem.instr().reset();
    problem.instr().set_perturb(0);
    mv::catch(|| {
        let mut outer = State::<P>::new();
        outer.insert(mahf::logging::Log::new());
        outer.insert(mahf::state::common::Populations::<P>::new());
        outer.insert(Random::new(seed));
        setup(&mut outer, false).map_err(|e| format!("error: {e:#}"))?;
        let mut out = None;
        outer
            .with_inner_state(|inner| {
                cfg.run(problem, inner)?;
                out = Some((run_digest(inner), inner.contains_at_top::<Random>()));
                Ok(())
            })
            .map_err(|e| format!("error: {e:#}"))?;
        Ok(out.expect("closure ran"))
    })
    .unwrap_or_else(|p| Err(format!("panic: {p}")))
}

fn first_diff(a: &Value, b: &Value, path: String) -> Option<String> {
    match (a, b) {
        (Value::Object(x), Value::Object(y)) => {
            for (k, v) in x {
                match y.get(k) {
                    Some(w) => {
                        if let Some(d) = first_diff(v, w, format!("{path}.{k}")) {
                            return Some(d);
                        }
                    }
                    None => return Some(format!("{path}.{k} missing on one side")),
                }
            }
            if y.len() != x.len() {
                return Some(format!("{path}: different key sets"));
            }
            None
        }
        (Value::Array(x), Value::Array(y)) => {
            if x.len() != y.len() {
                return Some(format!("{path}: lengths {} vs {}", x.len(), y.len()));
            }
            for (i, (v, w)) in x.iter().zip(y).enumerate() {
                if let Some(d) = first_diff(v, w, format!("{path}[{i}]")) {
                    return Some(d);
                }
            }
            None
        }
        _ => {
            if a != b {
                Some(format!("{path}: {a} vs {b}"))
            } else {
                None
            }
        }
    }
}

fn top_key(diff: &str) -> String {
    diff.trim_start_matches('.').split(|c| c == '.' || c == '[' || c == ':').next().unwrap_or("?").to_string()
}

struct Variants<'r> {
    rep: &'r Reporter,
    pools: &'r [rayon::ThreadPool],
    nonces: usize,
    what: &'static str,
}

impl<'r> Variants<'r> {
    fn check<P: Instrumented>(&self, label: &str, detail: Value, cfg: &Configuration<P>, problem: &P, seed: u64, expect_seed_sensitive: bool) {
        let rep = self.rep;
        rep.case();
        rep.nontrivial(hash_of(&(self.what, label, detail.to_string(), seed)));
        // taken before the configuration is used for the first time
        let unused: Configuration<P> = Configuration::clone(cfg);
        let base = run(cfg, problem, seed, Backend::Default, false, None, 0);
        let cmp = |name: &str, other: &Result<Value, String>| {
            rep.count("digest_comparisons", 1);
            let d = match (&base, other) {
                (Ok(a), Ok(b)) => first_diff(a, b, String::new()),
                (Err(a), Err(b)) => {
                    if a == b {
                        None
                    } else {
                        Some(format!("different failures: {a} vs {b}"))
                    }
                }
                (a, b) => Some(format!("one run failed: base ok={} other ok={} ({})", a.is_ok(), b.is_ok(), a.as_ref().err().or(b.as_ref().err()).cloned().unwrap_or_default())),
            };
            if let Some(d) = d {
                rep.violation(&format!("{}:{}:differs-in-{}", self.what, name, top_key(&d)), json!({"run": label, "detail": detail, "seed": seed, "variant": name, "first_difference": d}));
            }
        };
        cmp("second-identical-run", &run(cfg, problem, seed, Backend::Default, false, None, 0));
        // the same configuration object after it has been used on another problem instance (other domain bounds):
        // a configuration holds no per-run or per-problem state
        if let Some(other) = problem.sibling() {
            let _ = run(cfg, &other, seed ^ 0x77, Backend::Default, false, None, 0);
            cmp("same-object-after-a-run-on-another-instance", &run(cfg, problem, seed, Backend::Default, false, None, 0));
            let used_then_cloned: Configuration<P> = Configuration::clone(cfg);
            cmp("clone-of-the-used-object", &run(&used_then_cloned, problem, seed, Backend::Default, false, None, 0));
            // and an object whose FIRST use was on the other instance
            let _ = run(&unused, &other, seed ^ 0x77, Backend::Default, false, None, 0);
            cmp("object-first-used-on-another-instance", &run(&unused, problem, seed, Backend::Default, false, None, 0));
            rep.count("runs_after_use_on_another_instance", 3);
        }
        let cloned: Configuration<P> = Configuration::clone(cfg);
        cmp("cloned-configuration", &run(&cloned, problem, seed, Backend::Default, false, None, 0));
        for (pi, pool) in self.pools.iter().enumerate() {
            for k in 0..self.nonces {
                let nonce = (hash_of(&(seed, pi, k)) | 1) as u64;
                let name = format!("parallel-evaluator-{}-threads", pool.current_num_threads());
                cmp(&name, &run(cfg, problem, seed, Backend::Default, true, Some(pool), nonce));
                rep.count("parallel_runs", 1);
            }
        }
        // sequential evaluator inside a pool (scheduling of the run itself)
        cmp("sequential-evaluator-inside-pool", &run(cfg, problem, seed, Backend::Default, false, Some(&self.pools[self.pools.len() - 1]), 0));
        // a generator supplied by the user is never replaced: custom backend is still there afterwards
        let std1 = run(cfg, problem, seed, Backend::Std, false, None, 0);
        let std2 = run(cfg, problem, seed, Backend::Std, true, Some(&self.pools[1 % self.pools.len()]), 3);
        rep.count("digest_comparisons", 1);
        if let (Ok(a), Ok(b)) = (&std1, &std2) {
            if let Some(d) = first_diff(a, b, String::new()) {
                rep.violation(&format!("{}:user-generator:runs-differ-in-{}", self.what, top_key(&d)), json!({"run": label, "detail": detail, "seed": seed, "first_difference": d}));
            }
            let backend = a["rng"]["backend"].as_str().unwrap_or("");
            if !backend.contains("StdRng") || a["rng"]["seed"].as_u64() != Some(seed) {
                rep.violation(&format!("{}:user-generator:replaced", self.what), json!({"run": label, "detail": detail, "seed": seed, "generator_after_run": a["rng"]}));
            }
        }
        // driven through Configuration::run on a child state: the generator the caller supplied (in the enclosing state)
        // is the one that is used - same seed, same run, and nothing shadows it
        {
            let n1 = run_nested(cfg, problem, seed);
            let n2 = run_nested(cfg, problem, seed);
            rep.count("digest_comparisons", 2);
            rep.count("runs_on_a_child_state", 2);
            match (&n1, &n2, &base) {
                (Ok((a, shadow_a)), Ok((b, _)), Ok(reference)) => {
                    if let Some(d) = first_diff(a, b, String::new()) {
                        rep.violation(&format!("{}:run-on-a-child-state:same-seed-runs-differ-in-{}", self.what, top_key(&d)), json!({"run": label, "detail": detail, "seed": seed, "first_difference": d}));
                    } else if *shadow_a {
                        rep.violation(&format!("{}:run-on-a-child-state:generator-of-the-caller-shadowed", self.what), json!({"run": label, "detail": detail, "seed": seed}));
                    } else if a["stack"] != reference["stack"] || a["rng"] != reference["rng"] {
                        rep.violation(&format!("{}:run-on-a-child-state:differs-from-the-run-on-the-root-state", self.what), json!({"run": label, "detail": detail, "seed": seed, "first_difference": first_diff(reference, a, String::new())}));
                    }
                }
                (Err(x), Err(y), Err(_)) if x == y => {}
                (a, b, c) => {
                    if a.is_ok() != c.is_ok() || a.is_ok() != b.is_ok() {
                        rep.violation(&format!("{}:run-on-a-child-state:fails-where-the-root-run-does-not-or-vice-versa", self.what), json!({"run": label, "detail": detail, "seed": seed, "child_state_run": a.as_ref().err(), "root_run": c.as_ref().err()}));
                    }
                }
            }
        }
        // different seeds give different runs (so that a constant digest cannot pass)
        if expect_seed_sensitive {
            let other = run(cfg, problem, seed ^ 0x5555, Backend::Default, false, None, 0);
            if let (Ok(a), Ok(b)) = (&base, &other) {
                rep.count("seed_sensitivity_checks", 1);
                if a["stack"] == b["stack"] && a["rng"]["next"] == b["rng"]["next"] {
                    rep.violation(&format!("{}:different-seeds-give-identical-runs", self.what), json!({"run": label, "detail": detail, "seeds": [seed, seed ^ 0x5555]}));
                }
            }
        }
        if rep.want_sample() {
            if let Ok(b) = &base {
                rep.sample(json!({"run": label, "detail": detail, "seed": seed, "digest_excerpt": {"evaluations": b["evaluations"], "iterations": b["iterations"], "best": b["best"], "rng": b["rng"], "log_steps": b["log"].as_array().map(|a| a.len())}}));
            }
        }
    }
}

impl<'r> TemplateVisitor for Variants<'r> {
    fn visit<P>(&mut self, meta: &CaseMeta, cfg: Configuration<P>, problem: &P)
    where
        P: Instrumented + KnownOptimumProblem,
    {
        self.rep.distinct("templates", hash_of(&meta.tmpl));
        self.check(&format!("{:?}", meta.tmpl), json!(meta), &cfg, problem, meta.seed, meta.n >= 1);
    }
}

fn random_api(rep: &Reporter) {
    // small and special seeds, pairwise: different seeds give different streams and different children
    {
        let seeds: Vec<u64> = (0..16u64).chain([u64::MAX, u64::MAX - 1, 1 << 32, (1 << 32) - 1, 1 << 63]).collect();
        let firsts: Vec<(u64, Vec<u64>, Vec<u64>)> = seeds
            .iter()
            .map(|&s| {
                let mut r = Random::new(s);
                let stream: Vec<u64> = (0..4).map(|_| r.next_u64()).collect();
                let kids: Vec<u64> = Random::new(s).iter_children().take(3).map(|mut c| c.next_u64()).collect();
                (s, stream, kids)
            })
            .collect();
        for (i, a) in firsts.iter().enumerate() {
            for b in &firsts[i + 1..] {
                rep.case();
                rep.nontrivial(hash_of(&("seed-pair", a.0, b.0)));
                if a.1 == b.1 || a.2 == b.2 {
                    rep.violation("random:different-seeds-same-stream-or-children", json!({"seeds": [a.0, b.0]}));
                }
            }
        }
    }
    let mut rng = SplitMix64::new(rep.seed).fork(0xC08_A);
    for _ in 0..rep.tier.pick(200, 50_000) {
        let s = rng.next_u64();
        rep.case();
        rep.nontrivial(hash_of(&("rand", s)));
        let kids = |seed: u64| -> Vec<(u64, u64, String, u64)> {
            let mut r = Random::new(seed);
            r.iter_children().take(4).map(|mut c| (c.next_u64(), c.next_u64(), c.config().name.to_string(), c.config().seed)).collect()
        };
        let a = kids(s);
        let b = kids(s);
        let c = kids(s.wrapping_add(1));
        if a != b {
            rep.violation("random:children-not-a-function-of-the-seed", json!({"seed": s}));
        }
        if a == c {
            rep.violation("random:different-seeds-same-children", json!({"seeds": [s, s.wrapping_add(1)]}));
        }
        let firsts: std::collections::HashSet<u64> = a.iter().map(|k| k.0).collect();
        if firsts.len() != a.len() {
            rep.violation("random:sibling-children-identical", json!({"seed": s}));
        }
        let mut x = Random::new(s);
        let mut y = Random::new(s);
        let mut z = Random::new(s ^ 1);
        let (xs, ys, zs): (Vec<u64>, Vec<u64>, Vec<u64>) = ((0..8).map(|_| x.next_u64()).collect(), (0..8).map(|_| y.next_u64()).collect(), (0..8).map(|_| z.next_u64()).collect());
        if xs != ys || xs == zs {
            rep.violation("random:stream-not-determined-by-seed", json!({"seed": s}));
        }
        // children keep the backend of their parent
        let mut r = Random::with_rng::<StdRng>(s);
        let child = r.iter_children().next().unwrap();
        if !child.config().name.contains("StdRng") || !r.config().name.contains("StdRng") || r.config().seed != s {
            rep.violation("random:child-loses-backend", json!({"seed": s, "child_backend": child.config().name}));
        }
        // byte streams and the `&mut Random` iterator are functions of the seed as well
        let (mut f1, mut f2) = ([0u8; 24], [0u8; 24]);
        Random::new(s).fill_bytes(&mut f1);
        let _ = Random::new(s).try_fill_bytes(&mut f2);
        let mut via_iter = Random::new(s);
        let first_child = (&mut via_iter).into_iter().next().map(|mut c| c.next_u64());
        if f1 != f2 || f1 == [0u8; 24] || first_child != Some(a[0].0) {
            rep.violation("random:byte-stream-or-iterator-not-determined-by-seed", json!({"seed": s}));
        }
        // children reached through iterator adaptors are the children reached one by one
        {
            let one_by_one: Vec<u64> = Random::new(s).iter_children().take(9).map(|mut c| c.next_u64()).collect();
            let skipped: Vec<u64> = Random::new(s).iter_children().skip(3).take(3).map(|mut c| c.next_u64()).collect();
            let nth = Random::new(s).iter_children().nth(5).map(|mut c| c.next_u64());
            let stepped: Vec<u64> = Random::new(s).iter_children().step_by(2).take(4).map(|mut c| c.next_u64()).collect();
            let mut two_batches = Random::new(s);
            let b1: Vec<u64> = two_batches.iter_children().take(4).map(|mut c| c.next_u64()).collect();
            let b2: Vec<u64> = two_batches.iter_children().take(4).map(|mut c| c.next_u64()).collect();
            if skipped != one_by_one[3..6] || nth != Some(one_by_one[5]) || stepped != [one_by_one[0], one_by_one[2], one_by_one[4], one_by_one[6]] || b1 != one_by_one[..4] || b2 != one_by_one[4..8] {
                rep.violation("random:children-through-skip-nth-step_by-or-batches-differ-from-children-one-by-one", json!({"seed": s}));
            }
        }
        if Random::testing().next_u64() != Random::new(0).next_u64() {
            rep.violation("random:testing-generator-not-seeded-with-zero", json!({}));
        }
        let mut r2 = Random::with_rng::<StdRng>(s);
        let mut c1 = r2.iter_children().next().unwrap();
        let mut d1 = Random::new(s).iter_children().next().unwrap();
        let _ = (c1.next_u64(), d1.next_u64());
    }
}

fn decode_steps(names: &[Value], entries: &[Value]) -> Vec<std::collections::BTreeMap<String, Value>> {
    entries
        .iter()
        .map(|e| {
            let mut m = std::collections::BTreeMap::new();
            if let Some(o) = e.as_object() {
                for (k, v) in o {
                    let idx: usize = k.parse().unwrap_or(usize::MAX);
                    let name = names.get(idx).and_then(|n| n.as_str()).unwrap_or("?").to_string();
                    m.insert(name, v.clone());
                }
            }
            m
        })
        .collect()
}

fn experiments(rep: &Reporter, pools: &[rayon::ThreadPool]) {
    let scratch = std::env::var("VERIF_SCRATCH").unwrap_or_else(|_| format!("{}/target/scratch/manual", mv::verif_root().display()));
    let mut k = 0;
    for &runs in &[1u64, 3, 8] {
        for pool in pools {
            k += 1;
            if rep.quick() && k % 3 == 2 {
                continue;
            }
            let dir = format!("{scratch}/exp_{runs}_{}", pool.current_num_threads());
            let _ = std::fs::remove_dir_all(&dir);
            let problem = templates::real_instance(1);
            let cfg = mahf::heuristics::ga::real_ga::<Real>(
                mahf::heuristics::ga::RealProblemParameters { population_size: 6, tournament_size: 2, pm: 1.0, deviation: 0.2, pc: 0.7 },
                mahf::conditions::LessThanN::iterations(6),
            )
            .unwrap();
            let problems = [problem];
            // every other batch: the user's setup supplies its own generator, which must not be replaced
            let user_rng = k % 3 == 0;
            let res = pool.install(|| {
                mv::catch(|| {
                    mahf::experiments::par_experiment(
                        &cfg,
                        |s| {
                            if user_rng {
                                s.insert(Random::with_rng::<StdRng>(777));
                            }
                            setup(s, true)
                        },
                        &problems,
                        runs,
                        &dir,
                        true,
                    )
                    .map_err(|e| format!("{e:#}"))
                })
            });
            rep.case();
            rep.nontrivial(hash_of(&("experiment", runs, pool.current_num_threads())));
            rep.count("experiment_batches", 1);
            match res {
                Ok(Ok(())) => {}
                other => {
                    rep.violation("experiment:batch-failed", json!({"runs": runs, "pool_threads": pool.current_num_threads(), "result": format!("{other:?}")}));
                    continue;
                }
            }
            if !std::path::Path::new(&format!("{dir}/configuration.ron")).exists() {
                rep.violation("experiment:configuration-file-missing", json!({"dir": dir}));
            }
            for run_ix in 0..runs {
                let path = format!("{dir}/{}_{run_ix}.cbor", mahf::Problem::name(&problems[0]));
                let decoded: Result<Value, String> = std::fs::File::open(&path)
                    .map_err(|e| e.to_string())
                    .and_then(|f| ciborium::de::from_reader::<ciborium::value::Value, _>(std::io::BufReader::new(f)).map_err(|e| e.to_string()))
                    .and_then(|v| serde_json::to_value(&v).map_err(|e| e.to_string()));
                let decoded = match decoded {
                    Ok(d) => d,
                    Err(e) => {
                        rep.violation("experiment:log-file-unreadable", json!({"path": path, "error": e}));
                        continue;
                    }
                };
                let file_steps = decode_steps(decoded["names"].as_array().map(|a| a.as_slice()).unwrap_or(&[]), decoded["entries"].as_array().map(|a| a.as_slice()).unwrap_or(&[]));
                // reference: sequential run with Random::new(run)
                problems[0].instr.reset();
                let st = cfg
                    .optimize_with(&problems[0], |s| {
                        s.insert(if user_rng { Random::with_rng::<StdRng>(777) } else { Random::new(run_ix) });
                        setup(s, false)
                    })
                    .unwrap();
                let mem = serde_json::to_value(&*st.log()).unwrap();
                let mem_steps: Vec<std::collections::BTreeMap<String, Value>> = mem
                    .as_array()
                    .unwrap()
                    .iter()
                    .map(|step| step.as_array().unwrap().iter().map(|e| (e["name"].as_str().unwrap().to_string(), e["value"].clone())).collect())
                    .collect();
                rep.count("experiment_run_logs_compared", 1);
                // CBOR -> JSON conversion keeps numbers; compare through f64 where both are numbers
                if !steps_equal(&file_steps, &mem_steps) {
                    rep.violation(if user_rng { "experiment:user-supplied-generator-not-used" } else { "experiment:run-log-differs-from-sequential-run-with-the-same-seed" }, json!({"user_supplied_generator": user_rng, "runs": runs, "pool_threads": pool.current_num_threads(), "run": run_ix, "file_steps": file_steps.len(), "reference_steps": mem_steps.len(), "first_file_step": file_steps.first(), "first_reference_step": mem_steps.first()}));
                }
            }
            let _ = std::fs::remove_dir_all(&dir);
        }
    }
}

fn steps_equal(a: &[std::collections::BTreeMap<String, Value>], b: &[std::collections::BTreeMap<String, Value>]) -> bool {
    fn veq(x: &Value, y: &Value) -> bool {
        match (x, y) {
            (Value::Number(p), Value::Number(q)) => p.as_f64() == q.as_f64(),
            (Value::Array(p), Value::Array(q)) => p.len() == q.len() && p.iter().zip(q).all(|(a, b)| veq(a, b)),
            (Value::Object(p), Value::Object(q)) => p.len() == q.len() && p.iter().all(|(k, v)| q.get(k).map(|w| veq(v, w)).unwrap_or(false)),
            _ => x == y,
        }
    }
    a.len() == b.len() && a.iter().zip(b).all(|(x, y)| x.len() == y.len() && x.iter().all(|(k, v)| y.get(k).map(|w| veq(v, w)).unwrap_or(false)))
}

fn main() {
    let rep = Reporter::from_args("C08");
    rep.fold_aux();
    rep.rule("for each (configuration, problem, seed): digest(sequential run) must equal digest(second run), digest(run of config.clone()), digest(parallel evaluator in rayon pools of the listed sizes with seeded latency perturbation of the objective), digest(run inside a pool), and a user-supplied generator (StdRng backend) must still be the one in the final state with identical runs under both evaluators; a different seed must change the run. Digest = whole population stack (exact solutions, objective bits), best, counters, full log, algorithm memories (velocities, pheromones, molecules, temperature, diversity, archive) and the generator's next output. Configurations: all 21 templates over the parameter catalogue, seeded random operator pipelines, and the four diversity measures in a loop on problems of 3-64 dimensions; for real-valued problems also the same configuration object after it was used on (or first used on) another problem instance with other domain bounds, and a clone of the used object. Random: small and special seeds pairwise; children through skip / nth / step_by / consecutive batches equal the children drawn one by one. Also: every configuration driven through Configuration::run on a child state (twice, same seed; the caller's generator is used and not shadowed), and loops with a screening evaluation stage under identifier A before the real one. Plus: Random children/streams are functions of the seed; par_experiment run logs (decoded CBOR) equal the log of a sequential run with Random::new(run). distinct_nontrivial = distinct (configuration, seed) cells + Random seeds + experiment batches");
    rep.assume("schedule diversity is what pool sizes x latency nonces produced (see C06 evidence for measured completion orders); harness problems");
    let sizes: &[usize] = if rep.quick() { &[1, 4, 16] } else { &[1, 2, 4, 8, 16] };
    let pools: Vec<rayon::ThreadPool> = sizes.iter().map(|&n| rayon::ThreadPoolBuilder::new().num_threads(n).build().unwrap()).collect();
    rep.set("pool_sizes", json!(sizes));
    let nonces = rep.tier.pick(1usize, 3usize);
    random_api(&rep);
    let cases = templates::cases(true, rep.seed, rep.tier.pick(2usize, 6usize));
    let cases: Vec<_> = cases.into_iter().filter(|c| c.n > 0 || c.seed % 5 == 0).collect();
    let n = cases.len();
    std::thread::scope(|s| {
        for range in mv::shards(n, num_workers().min(8)) {
            let cases = &cases;
            let rep = &rep;
            let pools = &pools;
            s.spawn(move || {
                let mut v = Variants { rep, pools, nonces, what: "template" };
                for i in range {
                    templates::dispatch(&cases[i], &mut v, &mut |_m, _e| {});
                }
            });
        }
    });
    rep.count("template_cells", n as u64);
    let n_pipe = rep.tier.pick(600usize, 12_000usize);
    std::thread::scope(|s| {
        for (w, range) in mv::shards(n_pipe, num_workers().min(8)).into_iter().enumerate() {
            let rep = &rep;
            let pools = &pools;
            s.spawn(move || {
                let v = Variants { rep, pools, nonces, what: "pipeline" };
                let mut rng = SplitMix64::new(rep.seed).fork(0xC08_0000 + w as u64);
                for _ in range {
                    let seed = rng.below(1 << 40);
                    match rng.below(4) {
                        0 | 1 => {
                            let inst = 1 + rng.usize(6);
                            let (cfg, d) = real_pipeline(&mut rng);
                            v.check(&d, json!({"instance": templates::real_instance_desc(inst)}), &cfg, &templates::real_instance(inst), seed, true);
                        }
                        2 => {
                            let dim = 2 + rng.usize(10);
                            let (cfg, d) = bits_pipeline(&mut rng);
                            v.check(&d, json!({"instance": format!("Bits dim {dim}")}), &cfg, &Bits::new(dim, BitFn::Trap), seed, true);
                        }
                        _ => {
                            let dim = 4 + rng.usize(5);
                            let (cfg, d) = perm_pipeline(&mut rng, dim);
                            v.check(&d, json!({"instance": format!("Perm dim {dim}")}), &cfg, &Perm::new(dim), seed, true);
                        }
                    }
                    rep.count("pipeline_cells", 1);
                }
            });
        }
    });
    // the four diversity measures on problems with many dimensions (sums over dimensions / individuals whose
    // floating-point association would depend on how a thread pool splits them)
    {
        use mahf::components::{boundary, diversity, initialization, mutation};
        let v = Variants { rep: &rep, pools: &pools, nonces, what: "diversity" };
        let mut rng = SplitMix64::new(rep.seed).fork(0xC08_D);
        for k in 0..rep.tier.pick(12usize, 200usize) {
            let dim = [3usize, 17, 40, 64][k % 4];
            let pop = 3 + rng.usize(9) as u32;
            let cfg: Configuration<Real> = Configuration::builder()
                .do_(initialization::RandomSpread::new(pop))
                .evaluate()
                .while_(mahf::conditions::LessThanN::iterations(3), |b| {
                    b.do_(diversity::DimensionWiseDiversity::new())
                        .do_(diversity::TrueDiversity::new())
                        .do_(diversity::PairwiseDistanceDiversity::new())
                        .do_(diversity::DistanceToAveragePointDiversity::new())
                        .do_(mutation::NormalMutation::new_dev(0.3))
                        .do_(boundary::Saturation::new())
                        .evaluate()
                })
                .build();
            let problem = Real::new(dim, -5.12, 5.12, RealFn::Rastrigin);
            v.check("diversity measures in a loop", json!({"dimension": dim, "population": pop}), &cfg, &problem, rng.below(1 << 40), true);
            rep.count("diversity_cells", 1);
        }
    }
    // two evaluation stages in one loop: a screening stage under identifier A, then the real one; both evaluators must
    // re-evaluate what the screening stage evaluated
    {
        use mahf::components::{boundary, initialization, mutation};
        let v = Variants { rep: &rep, pools: &pools, nonces, what: "two-stage-evaluation" };
        let mut rng = SplitMix64::new(rep.seed).fork(0xC08_E);
        for _ in 0..rep.tier.pick(8usize, 120usize) {
            let pop = 1 + rng.usize(9) as u32;
            let cfg: Configuration<Real> = Configuration::builder()
                .do_(initialization::RandomSpread::new(pop))
                .evaluate_with::<mahf::identifier::A>()
                .evaluate()
                .update_best_individual()
                .while_(mahf::conditions::LessThanN::iterations(3), |b| {
                    b.do_(mutation::NormalMutation::new(0.3, 0.5)).do_(boundary::Saturation::new()).evaluate_with::<mahf::identifier::A>().evaluate().update_best_individual()
                })
                .build();
            let inst = 1 + rng.usize(6);
            v.check("screening stage (A) then evaluation", json!({"population": pop, "instance": templates::real_instance_desc(inst)}), &cfg, &templates::real_instance(inst), rng.below(1 << 40), true);
            rep.count("two_stage_cells", 1);
        }
    }
    // degenerate shapes: empty populations reaching the evaluator / the operators
    {
        use mahf::components::{initialization, mutation, replacement, selection};
        let v = Variants { rep: &rep, pools: &pools, nonces, what: "degenerate" };
        let shapes: Vec<(&str, Configuration<Real>)> = vec![
            ("Empty; evaluate; update_best", Configuration::builder().do_(initialization::Empty::new()).evaluate().update_best_individual().build()),
            ("RandomSpread(0); evaluate; update_best", Configuration::builder().do_(initialization::RandomSpread::new(0)).evaluate().update_best_individual().build()),
            (
                "RandomSpread(4); evaluate; while 3 { None; NormalMutation; evaluate; Merge }",
                Configuration::builder()
                    .do_(initialization::RandomSpread::new(4))
                    .evaluate()
                    .while_(mahf::conditions::LessThanN::iterations(3), |b| b.do_(selection::None::new()).do_(mutation::NormalMutation::new_dev(0.1)).evaluate().do_(replacement::Merge::new()))
                    .build(),
            ),
            (
                "RandomSpread(1); evaluate; while 4 { All; NormalMutation; evaluate; MuPlusLambda(1) }",
                Configuration::builder()
                    .do_(initialization::RandomSpread::new(1))
                    .evaluate()
                    .while_(mahf::conditions::LessThanN::iterations(4), |b| b.do_(selection::All::new()).do_(mutation::NormalMutation::new_dev(0.1)).evaluate().do_(replacement::MuPlusLambda::new(1)))
                    .build(),
            ),
        ];
        for (label, cfg) in &shapes {
            for seed in 0..3u64 {
                v.check(label, json!({"instance": templates::real_instance_desc(1)}), cfg, &templates::real_instance(1), rep.seed * 31 + seed, false);
            }
        }
    }
    experiments(&rep, &pools);
    if rep.counter("parallel_runs") == 0 {
        rep.inconclusive("no parallel run executed");
    }
    let _ = BestSolutionLens::<Real>::new;
    rep.finish();
}
