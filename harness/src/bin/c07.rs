//! C07 — best-so-far and elitist memories only improve and hold the true best.
use std::sync::Mutex;

use mahf::{
    components::{
        archive::{ElitistArchive, ElitistArchiveIntoPopulation, ElitistArchiveUpdate},
        evaluation::BestIndividualUpdate,
    },
    problems::KnownOptimumProblem,
    state::common::{BestIndividual, Populations},
    verif::StepEvent,
    Component, Configuration, Individual, State,
};
use mv::{
    catch, hash_of, num_workers,
    problems::{tagged, Instrumented, TagP},
    report::Local,
    templates::{self, CaseMeta, TemplateVisitor},
    Reporter, SplitMix64,
};
use serde_json::json;

type T = (u32, u64); // tag, objective bits
const VALUES: [f64; 4] = [-1.0, 0.0, 1.0, f64::INFINITY];

fn val(t: &T) -> f64 {
    f64::from_bits(t.1)
}
fn view(i: &Individual<TagP>) -> T {
    (*i.solution(), i.objective().value().to_bits())
}
fn mk(t: &T) -> Individual<TagP> {
    tagged(t.0, Some(val(t)))
}

/// All populations of size 0..=max over VALUES; tags are assigned later (unique per sequence position).
fn all_value_pops(max: usize) -> Vec<Vec<f64>> {
    let mut out = vec![vec![]];
    for len in 1..=max {
        for code in 0..VALUES.len().pow(len as u32) {
            let mut c = code;
            out.push((0..len).map(|_| { let v = VALUES[c % VALUES.len()]; c /= VALUES.len(); v }).collect());
        }
    }
    out
}

fn state_with_pop(pop: &[T]) -> State<'static, TagP> {
    let mut st = State::<TagP>::new();
    let mut p = Populations::<TagP>::new();
    p.push(pop.iter().map(mk).collect());
    st.insert(p);
    st
}

/// One sequence of populations through BestIndividualUpdate (component) and BestIndividual::update (direct).
fn best_sequence(seq: &[Vec<T>]) -> Result<(), (String, String)> {
    let comp = BestIndividualUpdate::new::<TagP>();
    let mut st = State::<TagP>::new();
    st.insert(Populations::<TagP>::new());
    comp.init(&TagP, &mut st).map_err(|e| ("best:init-failed".to_string(), e.to_string()))?;
    let mut direct = BestIndividual::<TagP>::new();
    let mut model: Option<T> = None;
    for (k, pop) in seq.iter().enumerate() {
        {
            let mut pops = st.populations_mut();
            while pops.try_pop().is_some() {}
            pops.push(pop.iter().map(mk).collect());
        }
        let r = catch(|| comp.execute(&TagP, &mut st).map_err(|e| e.to_string()));
        if !matches!(r, Ok(Ok(()))) {
            return Err((format!("best:update-failed:{}", if pop.is_empty() { "empty-population" } else { "nonempty" }), format!("update {k} on {pop:?}: {r:?}")));
        }
        let got = st.borrow::<BestIndividual<TagP>>().as_ref().map(view);
        // an unevaluated candidate cannot be compared (the call panics): whatever happens, the record is what it was
        // (only probed while a record exists: an empty record takes whatever it is given)
        if direct.is_some() {
            let before = direct.as_ref().map(view);
            let _ = catch(std::panic::AssertUnwindSafe(|| direct.update(&tagged(9_000 + k as u32, None))));
            if direct.as_ref().map(|d| !d.is_evaluated()).unwrap_or(false) {
                return Err(("best:record-changed-by-a-refused-update".into(), format!("BestIndividual::update with an unevaluated candidate replaced the record {before:?} by the unevaluated candidate")));
            }
            let after = direct.as_ref().map(view);
            if after != before {
                return Err(("best:record-changed-by-a-refused-update".into(), format!("BestIndividual::update with an unevaluated candidate changed the record from {before:?} to {after:?}")));
            }
        }
        // direct API: fold every member
        let mut any_true = false;
        for t in pop {
            let before = direct.as_ref().map(view);
            let changed = direct.update(&mk(t));
            let after = direct.as_ref().map(view);
            let strictly = before.map(|b| val(t) < val(&b)).unwrap_or(true);
            if changed != strictly || (changed && after != Some(*t)) || (!changed && after != before) {
                return Err(("best:direct-update-wrong".into(), format!("BestIndividual::update({t:?}) on {before:?} returned {changed}, now {after:?}")));
            }
            any_true |= changed;
        }
        let _ = any_true;
        // model
        let pop_min = pop.iter().map(val).fold(f64::INFINITY, f64::min);
        let expect_change = !pop.is_empty() && model.map(|m| pop_min < val(&m)).unwrap_or(true);
        match (got, model, expect_change) {
            (Some(g), _, true) => {
                if !pop.contains(&g) || val(&g) != pop_min {
                    return Err(("best:not-the-population-minimum".into(), format!("after update {k} on {pop:?} the best is {g:?} (previous {model:?})")));
                }
                model = Some(g);
            }
            (g, m, false) => {
                if g != m {
                    let class = match (g, m) {
                        (Some(g), Some(m)) if val(&g) == val(&m) => "replaced-on-a-tie",
                        (Some(g), Some(m)) if val(&g) > val(&m) => "got-worse",
                        (None, Some(_)) => "lost",
                        _ => "changed-without-improvement",
                    };
                    return Err((format!("best:{class}"), format!("after update {k} on {pop:?} the best is {g:?}, previous {m:?}")));
                }
            }
            (None, _, true) => return Err(("best:missing-after-update".into(), format!("after update {k} on {pop:?} there is no best individual"))),
        }
        if let (Some(b), false) = (model, pop.is_empty()) {
            if val(&b) > pop_min {
                return Err(("best:worse-than-a-population-member".into(), format!("after update {k} the best {b:?} is worse than a member of {pop:?}")));
            }
        }
        // direct fold agrees on the objective value
        if direct.as_ref().map(|d| d.objective().value()) != model.map(|m| val(&m)) {
            return Err(("best:direct-and-component-disagree".into(), format!("after update {k}: direct {:?} component {model:?}", direct.as_ref().map(view))));
        }
    }
    Ok(())
}

fn archive_sequence(seq: &[Vec<T>], k: usize, reinsertion_target: &[T]) -> Result<(), (String, String)> {
    let upd = ElitistArchiveUpdate::new::<TagP>(k);
    let mut st = State::<TagP>::new();
    st.insert(Populations::<TagP>::new());
    upd.init(&TagP, &mut st).map_err(|e| ("archive:init-failed".to_string(), e.to_string()))?;
    let mut shown: Vec<T> = Vec::new();
    for (step, pop) in seq.iter().enumerate() {
        {
            let mut pops = st.populations_mut();
            while pops.try_pop().is_some() {}
            pops.push(pop.iter().map(mk).collect());
        }
        let r = catch(|| upd.execute(&TagP, &mut st).map_err(|e| e.to_string()));
        if !matches!(r, Ok(Ok(()))) {
            return Err(("archive:update-failed".into(), format!("update {step} on {pop:?}: {r:?}")));
        }
        shown.extend(pop.iter().cloned());
        let got: Vec<T> = st.borrow::<ElitistArchive<TagP>>().elitists().iter().map(view).collect();
        let mut want: Vec<f64> = shown.iter().map(val).collect();
        want.sort_by(|a, b| a.partial_cmp(b).unwrap());
        want.truncate(k);
        let mut gv: Vec<f64> = got.iter().map(val).collect();
        gv.sort_by(|a, b| a.partial_cmp(b).unwrap());
        // compared as numbers: -0.0 and +0.0 tie, either may be kept
        if gv != want {
            let class = if gv.len() < want.len() { "too-few" } else if gv.len() > want.len() { "over-capacity" } else { "not-the-k-best" };
            return Err((format!("archive:{class}"), format!("capacity {k}, after update {step}: archive {got:?}, shown so far {shown:?}")));
        }
        // members are exact copies of shown individuals, each at most as often as shown
        let mut pool = shown.clone();
        for g in &got {
            match pool.iter().position(|s| s == g) {
                Some(i) => drop(pool.remove(i)),
                None => return Err(("archive:member-not-a-copy-of-a-shown-individual".into(), format!("archive member {g:?} (capacity {k}) was not shown (or more often than shown): {shown:?}"))),
            }
        }
    }
    // re-insertion never duplicates an individual that is already there
    let archive: Vec<T> = st.borrow::<ElitistArchive<TagP>>().elitists().iter().map(view).collect();
    {
        let mut pops = st.populations_mut();
        while pops.try_pop().is_some() {}
        pops.push(reinsertion_target.iter().map(mk).collect());
    }
    let re = ElitistArchiveIntoPopulation::new::<TagP>();
    let r = catch(|| re.execute(&TagP, &mut st).map_err(|e| e.to_string()));
    if !matches!(r, Ok(Ok(()))) {
        return Err(("archive:reinsertion-failed".into(), format!("{r:?}")));
    }
    let now: Vec<T> = st.populations().current().iter().map(view).collect();
    let mut want: Vec<T> = reinsertion_target.to_vec();
    for a in &archive {
        if !want.contains(a) {
            want.push(*a);
        }
    }
    let mut a = now.clone();
    let mut b = want.clone();
    a.sort();
    b.sort();
    if now.len() < reinsertion_target.len() || now[..reinsertion_target.len()] != reinsertion_target[..] {
        return Err(("archive:reinsertion-disturbs-population".into(), format!("population {reinsertion_target:?} became {now:?}")));
    }
    if a != b {
        let class = if a.len() > b.len() { "duplicates-a-member" } else { "misses-an-elitist" };
        return Err((format!("archive:reinsertion-{class}"), format!("archive {archive:?} into {reinsertion_target:?} gave {now:?}")));
    }
    Ok(())
}

fn tagify(seq_vals: &[&Vec<f64>]) -> Vec<Vec<T>> {
    let mut tag = 0u32;
    seq_vals
        .iter()
        .map(|p| {
            p.iter()
                .map(|v| {
                    tag += 1;
                    (tag, v.to_bits())
                })
                .collect()
        })
        .collect()
}

fn part_a(rep: &Reporter) {
    let pops = all_value_pops(3);
    let np = pops.len();
    let max_len = 3usize;
    let total: usize = (1..=max_len).map(|l| np.pow(l as u32)).sum();
    rep.count("exhaustive_population_sequences", total as u64);
    std::thread::scope(|s| {
        for range in mv::shards(np.pow(max_len as u32), num_workers()) {
            let pops = &pops;
            s.spawn(move || {
                let mut local = Local::new();
                for idx in range {
                    // sequences of length 3 (prefixes are checked along the way); lengths 1,2 are prefixes
                    let i = [idx % np, (idx / np) % np, idx / np / np];
                    let seq = tagify(&[&pops[i[0]], &pops[i[1]], &pops[i[2]]]);
                    local.case();
                    let ties = seq.iter().flatten().map(|t| t.1).collect::<std::collections::HashSet<_>>().len() < seq.iter().flatten().count();
                    if ties {
                        local.nontrivial(hash_of(&i));
                    }
                    if let Err((sig, msg)) = best_sequence(&seq) {
                        rep.violation(&sig, json!({"kind": "best-individual-sequence", "populations": format!("{:?}", seq.iter().map(|p| p.iter().map(|t| (t.0, val(t))).collect::<Vec<_>>()).collect::<Vec<_>>()), "observed": msg}));
                    }
                    // archive: an individual shown twice may sit in the archive twice; re-inserted into an empty
                    // (or any) population it still arrives once
                    if idx % 11 == 0 && !seq[0].is_empty() {
                        let twice = vec![seq[0].clone(), seq[0].clone(), seq[1].clone()];
                        for k in [2usize, 3, 8] {
                            for target in [Vec::new(), seq[1].clone()] {
                                local.case();
                                if let Err((sig, msg)) = archive_sequence(&twice, k, &target) {
                                    rep.violation(&sig, json!({"kind": "elitist-archive-sequence(a population shown twice)", "capacity": k, "reinsertion_target": format!("{target:?}"), "populations": format!("{:?}", twice.iter().map(|p| p.iter().map(|t| (t.0, val(t))).collect::<Vec<_>>()).collect::<Vec<_>>()), "observed": msg}));
                                }
                            }
                        }
                    }
                    // archive: all capacities on a subsample (every 7th sequence), target = a mix
                    if idx % 7 == 0 {
                        for k in [0usize, 1, 2, 3, 8] {
                            local.case();
                            let mut target: Vec<T> = seq[0].clone();
                            target.extend(seq[2].iter().take(1).cloned());
                            target.push((999, 0.5f64.to_bits()));
                            if let Err((sig, msg)) = archive_sequence(&seq, k, &target) {
                                rep.violation(&sig, json!({"kind": "elitist-archive-sequence", "capacity": k, "populations": format!("{:?}", seq.iter().map(|p| p.iter().map(|t| (t.0, val(t))).collect::<Vec<_>>()).collect::<Vec<_>>()), "observed": msg}));
                            }
                        }
                    }
                }
                rep.merge(local);
            });
        }
    });
    // signed zeros: -0.0 and +0.0 are the same objective value, so neither is "strictly better" than the other
    {
        let zs = [-0.0f64, 0.0, 1.0];
        let mut zp: Vec<Vec<f64>> = vec![vec![]];
        for a in zs {
            zp.push(vec![a]);
            for b in zs {
                zp.push(vec![a, b]);
            }
        }
        let nz = zp.len();
        for idx in 0..nz * nz * nz {
            let seq = tagify(&[&zp[idx % nz], &zp[(idx / nz) % nz], &zp[idx / nz / nz]]);
            rep.case();
            rep.nontrivial(hash_of(&("signed-zero", idx)));
            if let Err((sig, msg)) = best_sequence(&seq) {
                rep.violation(&sig, json!({"kind": "best-individual-sequence(signed zeros)", "populations": format!("{:?}", seq.iter().map(|p| p.iter().map(|t| (t.0, val(t))).collect::<Vec<_>>()).collect::<Vec<_>>()), "observed": msg}));
            }
            for k in [1usize, 2, 8] {
                let target: Vec<T> = seq[0].clone();
                if let Err((sig, msg)) = archive_sequence(&seq, k, &target) {
                    rep.violation(&sig, json!({"kind": "elitist-archive-sequence(signed zeros)", "capacity": k, "populations": format!("{:?}", seq.iter().map(|p| p.iter().map(|t| (t.0, val(t))).collect::<Vec<_>>()).collect::<Vec<_>>()), "observed": msg}));
                }
            }
        }
        rep.count("signed_zero_sequences", (nz * nz * nz) as u64);
    }
    // random larger sequences
    let n = rep.tier.pick(2_000usize, 1_500_000usize);
    let mut rng = SplitMix64::new(rep.seed).fork(0xC07);
    for _ in 0..n {
        // mostly short histories of small populations; one in sixteen is a long history (a best that has long stopped
        // improving) and one population in sixteen is large (above the sizes at which min / sort routines switch algorithm)
        let len = if rng.chance(0.06) { 9 + rng.usize(40) } else { 1 + rng.usize(8) };
        let mut tag = 0;
        let seq: Vec<Vec<T>> = (0..len)
            .map(|_| {
                (0..if rng.chance(0.06) { 9 + rng.usize(90) } else { rng.usize(9) })
                    .map(|_| {
                        tag += 1;
                        let v = if rng.chance(0.7) { (rng.below(7) as f64) - 3.0 } else if rng.chance(0.2) { f64::INFINITY } else { rng.f64_in(-5.0, 5.0) };
                        (tag, v.to_bits())
                    })
                    .collect()
            })
            .collect();
        rep.case();
        rep.nontrivial(hash_of(&seq));
        if let Err((sig, msg)) = best_sequence(&seq) {
            rep.violation(&sig, json!({"kind": "best-individual-sequence(random)", "populations": format!("{seq:?}"), "observed": msg}));
        }
        let k = *rng.pick(&[0usize, 1, 2, 3, 5, 8, 20]);
        let mut target: Vec<T> = seq.iter().flatten().filter(|_| rng.chance(0.3)).cloned().collect();
        if rng.bool() {
            target.push((9999, 0.25f64.to_bits()));
        }
        if let Err((sig, msg)) = archive_sequence(&seq, k, &target) {
            rep.violation(&sig, json!({"kind": "elitist-archive-sequence(random)", "capacity": k, "populations": format!("{seq:?}"), "observed": msg}));
        }
    }
    rep.sample(json!({"best_individual_sequence": "[[(1,0.0),(2,0.0)], [(3,-1.0),(4,inf)], [(5,-1.0)]]", "meaning": "ties inside a population, an improvement, then a tie with the held best (must keep tag 3)"}));
}

// ---- (b) templates -------------------------------------------------------------------------------
#[derive(Default)]
struct Rec {
    updates: u64,
    /// per scope depth: (sol hash, objective bits) of the best seen at the last update in that scope instance
    last_best: std::collections::BTreeMap<usize, (u64, u64)>,
    violations: Vec<(String, String)>,
}

struct V<'r> {
    rep: &'r Reporter,
}

impl<'r> TemplateVisitor for V<'r> {
    fn visit<P>(&mut self, meta: &CaseMeta, cfg: Configuration<P>, problem: &P)
    where
        P: Instrumented + KnownOptimumProblem,
    {
        let rep = self.rep;
        let rec = Mutex::new(Rec::default());
        let res = mv::observe::run_observed(&cfg, problem, meta.seed, meta.parallel, None, |ev, _p, state| {
            // a best-so-far memory created inside a scope is a different memory each time the scope is
            // entered: forget what was seen in scopes that have been left
            let depth = mv::observe::scope_depth(state);
            rec.lock().unwrap().last_best.retain(|d, _| *d <= depth);
            if let StepEvent::BlockChild { before: false, component, .. } = ev {
                if mv::sniff::name_of(component) != "BestIndividualUpdate" {
                    return;
                }
                let mut r = rec.lock().unwrap();
                r.updates += 1;
                let best = state.best_individual().map(|b| (P::sol_hash(b.solution()), b.objective().value()));
                if let Ok(pops) = state.try_borrow::<Populations<P>>() {
                    if let Some(cur) = pops.get_current() {
                        let evaluated: Vec<f64> = cur.iter().filter_map(|i| i.get_objective().map(|o| o.value())).collect();
                        if let Some(m) = evaluated.iter().cloned().fold(None, |a: Option<f64>, v| Some(a.map_or(v, |a| a.min(v)))) {
                            match best {
                                Some((_, b)) if b <= m => {}
                                other => r.violations.push(("after-update:best-worse-than-a-member-of-the-population".into(), format!("best {other:?}, population minimum {m}"))),
                            }
                        }
                    }
                }
                if let (Some((h0, o0)), Some((h1, o1))) = (r.last_best.get(&depth).copied(), best) {
                    let o0 = f64::from_bits(o0);
                    if o1 > o0 {
                        r.violations.push(("after-update:best-got-worse".into(), format!("best objective went from {o0} to {o1}")));
                    } else if o1 == o0 && h1 != h0 {
                        r.violations.push(("after-update:best-replaced-on-a-tie".into(), format!("best objective stayed {o0} but the individual changed")));
                    }
                }
                if let Some((h, o)) = best {
                    r.last_best.insert(depth, (h, o.to_bits()));
                }
            }
        });
        rep.case();
        rep.nontrivial(hash_of(&(meta.tmpl, &meta.params, &meta.instance, meta.n, meta.seed)));
        rep.distinct("templates", hash_of(&meta.tmpl));
        let r = rec.lock().unwrap();
        rep.count("best_updates_observed", r.updates);
        let name = format!("{:?}", meta.tmpl);
        for (sig, msg) in r.violations.iter().take(2) {
            rep.violation(&format!("template:{name}:{sig}"), json!({"meta": meta, "observed": msg}));
        }
        if let Ok(Ok(state)) = &res {
            let reported = state.best_objective_value().map(|o| o.value());
            let minimum = problem.instr().min_value();
            rep.count("runs_compared_with_call_log_minimum", 1);
            if reported.map(f64::to_bits) != minimum.map(f64::to_bits) {
                rep.violation(&format!("template:{name}:final-best-is-not-the-minimum-evaluated-value"), json!({"meta": meta, "reported_best": reported, "minimum_objective_value_returned": minimum, "objective_calls": problem.instr().calls()}));
            }
            if rep.want_sample() && r.updates > 5 {
                rep.sample(json!({"meta": meta, "best_updates": r.updates, "reported_best": reported, "minimum_in_call_log": minimum}));
            }
        }
    }
}

fn main() {
    let rep = Reporter::from_args("C07");
    rep.rule("(a) all sequences of up to 3 populations of up to 3 tagged individuals over objective values {-1,0,1,+inf} (ties and duplicates included; plus all sequences over {-0.0,+0.0,1}: signed zeros tie) through BestIndividualUpdate / BestIndividual::update, and (every 7th sequence x capacities {0,1,2,3,8}) through ElitistArchiveUpdate + ElitistArchiveIntoPopulation, vs reference folds (strict improvement only, tags tell which individual is held; k smallest so far as a multiset; re-insertion adds exactly the absent members); plus random longer sequences; (b) every BestIndividualUpdate observed at the step-observer hook in runs of all 21 templates (best <= every evaluated member of the current population, never worse, not replaced on a tie) and, at the end of every run, reported best == minimum value in the objective call log; the same for second runs on a reused state on a changed problem instance whose values are all higher (the best-so-far memory must start afresh), and for the generic ga / es loops with replacements that drop evaluated offspring. distinct_nontrivial = sequences containing ties + random sequences + distinct template runs");
    rep.assume("objective call log of harness problems is complete; tags identify individuals");
    part_a(&rep);
    // a second run on the state of a first one, on a changed problem instance whose values are all higher:
    // the best reported after the second run is the minimum the second objective function returned in it
    {
        let mut rng = SplitMix64::new(rep.seed).fork(0xC07_7);
        for k in 0..rep.tier.pick(400usize, 20_000usize) {
            let o = mv::warm::warm_restart(&mut rng, k);
            rep.case();
            rep.nontrivial(hash_of(&("warm-restart", k)));
            if o.failed.is_some() {
                continue;
            }
            rep.count("second_runs_on_a_reused_state", 1);
            if o.final_best.map(f64::to_bits) != o.min_evaluated_in_second_run.map(f64::to_bits) {
                rep.violation(
                    "second-run-on-a-reused-state:final-best-is-not-the-minimum-evaluated-value",
                    json!({"heuristic": o.variant, "first_objective": format!("{:?}", o.first_fn), "second_objective": format!("{:?}", o.second_fn), "dimension": o.dim, "seed": o.seed, "reported_best": o.final_best, "minimum_returned_by_the_objective_function_in_the_second_run": o.min_evaluated_in_second_run}),
                );
            }
        }
    }
    let seeds = rep.tier.pick(20usize, 400usize);
    let mut cases = templates::cases(rep.quick(), rep.seed, seeds);
    // witness of the recorded known finding (see known_findings.json), always re-run
    cases.push(templates::Case { tmpl: templates::Tmpl::Fa, pset: 2, inst: 7, n: 1, seed: 35127, with_optimum: false, parallel: false });
    let n = cases.len();
    std::thread::scope(|s| {
        for range in mv::shards(n, num_workers()) {
            let cases = &cases;
            let rep = &rep;
            s.spawn(move || {
                let mut v = V { rep };
                for i in range {
                    templates::dispatch(&cases[i], &mut v, &mut |_m, _e| {});
                }
            });
        }
    });
    rep.count("template_runs", n as u64);
    if rep.counter("best_updates_observed") == 0 {
        rep.inconclusive("hook never reached: no best-individual update observed");
    }
    rep.exhaustive(true);
    rep.finish();
}
