//! C15 — experiment records are exact: log entries, log export, configuration export.
use std::{
    collections::{BTreeMap, HashMap},
    sync::{Arc, Mutex},
};

use better_any::{Tid, TidAble};
use derive_more::{Deref, DerefMut};
use mahf::{
    components::{boundary, mutation, selection, Block, Branch, Loop, Scope},
    conditions::{common::PartialEqChecker, And, ChangeOf, Condition, EveryN, LessThanN, Not, OptimumReached, Or, RandomChance},
    lens::{common::BestObjectiveValueLens, IdLens, ValueOf},
    logging::Logger,
    problems::KnownOptimumProblem,
    state::common::{BestIndividual, Evaluations, Iterations},
    Component, Configuration, CustomState, ExecResult, Individual, State,
};
use mv::{
    catch, hash_of,
    problems::*,
    templates::{self, CaseMeta, TemplateVisitor},
    Reporter, SplitMix64,
};
use serde::Serialize;
use serde_json::{json, Value};

type P = Real;

#[derive(Tid, Deref, DerefMut, Clone, Serialize)]
struct Cu(u32);
impl CustomState<'_> for Cu {}
#[derive(Tid, Deref, DerefMut, Clone, Serialize)]
struct Missing(u32);
impl CustomState<'_> for Missing {}
/// a value that changes only on some passes (watched by the change-of trigger)
#[derive(Tid, Deref, DerefMut, Clone, Serialize, PartialEq)]
struct Cw(u32);
impl CustomState<'_> for Cw {}

/// JSON cannot hold non-finite numbers (serde_json turns them into null, which is also how a missing
/// source is logged), so values are compared in this encoding instead: finite numbers as they are,
/// non-finite ones as a tagged object.
fn num(f: f64) -> Value {
    if f.is_finite() {
        json!(f)
    } else {
        json!({"$nonfinite": format!("{f}")})
    }
}

/// CBOR value -> comparison encoding (map keys as strings).
fn cb2json(v: &ciborium::value::Value) -> Value {
    use ciborium::value::Value as C;
    match v {
        C::Integer(i) => {
            let i: i128 = (*i).into();
            json!(i as i64)
        }
        C::Float(f) => num(*f),
        C::Text(t) => json!(t),
        C::Bool(b) => json!(b),
        C::Null => Value::Null,
        C::Array(a) => Value::Array(a.iter().map(cb2json).collect()),
        C::Map(m) => Value::Object(
            m.iter()
                .map(|(k, v)| {
                    let k = match k {
                        C::Text(t) => t.clone(),
                        C::Integer(i) => {
                            let i: i128 = (*i).into();
                            i.to_string()
                        }
                        other => format!("{other:?}"),
                    };
                    (k, cb2json(v))
                })
                .collect(),
        ),
        C::Bytes(b) => json!(b),
        C::Tag(_, inner) => cb2json(inner),
        other => json!(format!("{other:?}")),
    }
}

/// what the JSON export can hold of a value in the comparison encoding: non-finite numbers degrade to null
fn json_view(v: &Value) -> Value {
    match v {
        Value::Object(o) if o.contains_key("$nonfinite") => Value::Null,
        Value::Array(a) => Value::Array(a.iter().map(json_view).collect()),
        Value::Object(o) => Value::Object(o.iter().map(|(k, v)| (k.clone(), json_view(v))).collect()),
        other => other.clone(),
    }
}

// ---- rules -----------------------------------------------------------------------------------------
#[derive(Clone, Debug, PartialEq, Eq, Hash)]
enum Trig {
    Always,
    Never,
    EveryK(u32),
    Scripted(Vec<bool>, usize), // outcomes, script index
    /// `EveryN::iterations(k) | ChangeOf(Cw)`: both operands are evaluated at every logger execution, so the
    /// change-of operand always compares with what it reported last (at most one such rule per rule set)
    EveryKOrChange(u32),
}
#[derive(Clone, Copy, Debug, PartialEq, Eq, Hash)]
enum Ext {
    Iterations,
    Evaluations,
    CustomValueOf,
    CustomId,
    MissingState,
    BestObjective,
    BestSolution,
}

#[derive(Default)]
struct Shared {
    script_pos: Vec<usize>,
    expected: Vec<Vec<(String, Value)>>,
    logger_executions: u64,
    firing_executions: u64,
    /// change-of model: last reported value per scope depth at which a logger initialised its triggers
    last_reported: BTreeMap<usize, Option<u32>>,
    fired_by_change_only: u64,
    nonfinite_logged: u64,
}

#[derive(Clone)]
struct ScriptTrig {
    outcomes: Vec<bool>,
    ix: usize,
    shared: Arc<Mutex<Shared>>,
}
impl Serialize for ScriptTrig {
    fn serialize<S: serde::Serializer>(&self, s: S) -> Result<S::Ok, S::Error> {
        s.serialize_unit_struct("ScriptTrig")
    }
}
impl Condition<P> for ScriptTrig {
    fn evaluate(&self, _p: &P, _s: &mut State<P>) -> ExecResult<bool> {
        let mut g = self.shared.lock().unwrap();
        let pos = g.script_pos[self.ix];
        g.script_pos[self.ix] += 1;
        Ok(self.outcomes.get(pos).copied().unwrap_or(false))
    }
}

fn ext_name(e: Ext) -> &'static str {
    match e {
        Ext::Iterations => std::any::type_name::<Iterations>(),
        Ext::Evaluations => std::any::type_name::<Evaluations>(),
        Ext::CustomValueOf | Ext::CustomId => std::any::type_name::<Cu>(),
        Ext::MissingState => std::any::type_name::<Missing>(),
        Ext::BestObjective => "BestObjectiveValue",
        Ext::BestSolution => "BestSolution",
    }
}

/// Oracle probe: placed directly in front of every logger. Computes, from the state at that moment,
/// the step the logger has to append (or none).
#[derive(Clone)]
struct Probe {
    rules: Vec<(Trig, Ext)>,
    shared: Arc<Mutex<Shared>>,
}
impl Serialize for Probe {
    fn serialize<S: serde::Serializer>(&self, s: S) -> Result<S::Ok, S::Error> {
        s.serialize_unit_struct("LogOracleProbe")
    }
}
impl Component<P> for Probe {
    fn init(&self, _p: &P, state: &mut State<P>) -> ExecResult<()> {
        // the logger behind this probe initialises every trigger in the current scope: a change-of trigger forgets
        let depth = mv::observe::scope_depth(state);
        self.shared.lock().unwrap().last_reported.insert(depth, None);
        Ok(())
    }
    fn execute(&self, _p: &P, state: &mut State<P>) -> ExecResult<()> {
        let mut g = self.shared.lock().unwrap();
        g.logger_executions += 1;
        let iters = state.try_get_value::<Iterations>().ok();
        // scopes that were left took their change-of memory with them
        let depth = mv::observe::scope_depth(state);
        g.last_reported.retain(|d, _| *d <= depth);
        let mut step: Vec<(String, Value)> = Vec::new();
        let mut fired_any = false;
        // every rule evaluates its own copy of its trigger: rules sharing one scripted trigger (e.g. registered through
        // `with_many`) consume one script position each, in rule order
        let mut consumed: HashMap<usize, usize> = HashMap::new();
        for (t, e) in &self.rules {
            let fire = match t {
                Trig::Always => true,
                Trig::Never => false,
                Trig::EveryK(k) => iters.map(|i| i % k == 0).unwrap_or(false),
                Trig::Scripted(o, ix) => {
                    let c = consumed.entry(*ix).or_insert(0);
                    let v = o.get(g.script_pos[*ix] + *c).copied().unwrap_or(false);
                    *c += 1;
                    v
                }
                Trig::EveryKOrChange(k) => {
                    let now = state.try_get_value::<Cw>().ok();
                    let slot = g.last_reported.iter_mut().next_back().map(|(_, v)| v).expect("a logger was initialised in this or an enclosing scope");
                    let changed = *slot != now;
                    if changed {
                        *slot = now;
                    }
                    let periodic = iters.map(|i| i % k == 0).unwrap_or(false);
                    if changed && !periodic {
                        g.fired_by_change_only += 1;
                    }
                    periodic | changed
                }
            };
            if !fire {
                continue;
            }
            fired_any = true;
            let name = ext_name(*e).to_string();
            if step.iter().any(|(n, _)| *n == name) {
                continue; // the first rule wins for a repeated name
            }
            let v = match e {
                Ext::Iterations => json!(iters),
                Ext::Evaluations => json!(state.try_get_value::<Evaluations>().ok()),
                Ext::CustomValueOf | Ext::CustomId => json!(state.try_get_value::<Cu>().ok()),
                Ext::MissingState => Value::Null,
                Ext::BestObjective => state.best_objective_value().map(|o| num(o.value())).unwrap_or(Value::Null),
                Ext::BestSolution => json!(state.best_individual().map(|b| b.solution().clone())),
            };
            if v.get("$nonfinite").is_some() {
                g.nonfinite_logged += 1;
            }
            step.push((name, v));
        }
        if fired_any {
            g.firing_executions += 1;
            let it_name = std::any::type_name::<Iterations>().to_string();
            if !step.iter().any(|(n, _)| *n == it_name) {
                step.insert(0, (it_name, json!(iters)));
            }
            g.expected.push(step);
        }
        Ok(())
    }
}

#[derive(Clone, Serialize)]
struct Bump {
    /// the best individual is only improved once the counter has passed this value
    best_from: u32,
}
impl Component<P> for Bump {
    fn execute(&self, _p: &P, state: &mut State<P>) -> ExecResult<()> {
        *state.try_borrow_value_mut::<Cu>()? += 3;
        let c = state.get_value::<Cu>();
        state.set_value::<Cw>(c / 9);
        if let Ok(mut e) = state.try_borrow_value_mut::<Evaluations>() {
            *e += 2;
        }
        // the best individual changes every other pass
        if c % 2 == 0 && c >= self.best_from {
            if let Ok(mut b) = state.try_borrow_mut::<BestIndividual<P>>() {
                b.update(&Individual::new(vec![0.0], (100.0 - c as f64).try_into().unwrap()));
            }
        }
        Ok(())
    }
}

#[derive(Clone, Debug)]
struct LogCase {
    rules: Vec<(Trig, Ext)>,
    n_outer: u32,
    logger_in_loop: bool,
    logger_after_loop: bool,
    nested_scope_loop: Option<u32>,
    two_loggers_in_loop: bool,
    with_best: bool,
    /// register consecutive rules that share a stateless trigger through `with_many`, after a `clear()` of junk rules
    via_with_many: bool,
    /// the run starts with a best individual whose objective value is +inf (a penalised infeasible solution) and keeps it for a while
    inf_best: bool,
}

fn run_log_case(rep: &Reporter, c: &LogCase, scratch: &str, export: bool) {
    let n_scripts = c.rules.iter().filter_map(|r| if let Trig::Scripted(_, ix) = &r.0 { Some(ix + 1) } else { None }).max().unwrap_or(0);
    let shared = Arc::new(Mutex::new(Shared { script_pos: vec![0; n_scripts.max(1)], ..Default::default() }));
    let probe = || -> Box<dyn Component<P>> { Box::new(Probe { rules: c.rules.clone(), shared: shared.clone() }) };
    let bump = || -> Box<dyn Component<P>> { Box::new(Bump { best_from: if c.inf_best { 12 } else { 0 } }) };
    let mut body: Vec<Box<dyn Component<P>>> = vec![bump()];
    if c.logger_in_loop {
        body.push(probe());
        body.push(Logger::new());
    }
    if let Some(m) = c.nested_scope_loop {
        body.push(Scope::new(vec![Loop::new(LessThanN::iterations(m), vec![bump(), probe(), Logger::new()])]));
    }
    if c.two_loggers_in_loop {
        body.push(probe());
        body.push(Logger::new());
    }
    let mut top: Vec<Box<dyn Component<P>>> = vec![Loop::new(LessThanN::iterations(c.n_outer), body)];
    if c.logger_after_loop {
        top.push(probe());
        top.push(Logger::new());
    }
    let cfg = Configuration::new(Block::new(top));
    let problem = Real::new(1, -1.0, 1.0, RealFn::Sphere);
    let rules = c.rules.clone();
    let sh = shared.clone();
    let with_best = c.with_best;
    let inf_best = c.inf_best;
    let via_with_many = c.via_with_many;
    let res = catch(|| {
        cfg.optimize_with(&problem, move |state| {
            state.insert(Cu(1));
            state.insert(Cw(0));
            state.insert(Evaluations(0));
            if with_best {
                let mut b = BestIndividual::<P>::new();
                if inf_best {
                    b.update(&Individual::new(vec![0.5], f64::INFINITY.try_into().unwrap()));
                }
                state.insert(b);
            }
            state.configure_log(|cfgl| {
                let ext_of = |e: &Ext| -> Box<dyn mahf::logging::extractor::EntryExtractor<P>> {
                    match e {
                        Ext::Iterations => ValueOf::<Iterations>::entry(),
                        Ext::Evaluations => ValueOf::<Evaluations>::entry(),
                        Ext::CustomValueOf => ValueOf::<Cu>::entry(),
                        Ext::CustomId => IdLens::<Cu>::entry(),
                        Ext::MissingState => ValueOf::<Missing>::entry(),
                        Ext::BestObjective => BestObjectiveValueLens::<P>::entry(),
                        Ext::BestSolution => mahf::lens::common::BestSolutionLens::<P>::entry(),
                    }
                };
                if via_with_many {
                    // junk first, then clear(): none of it may show up in the log
                    *cfgl = mahf::logging::LogConfig::new();
                    cfgl.with_common(EveryN::iterations(1));
                    cfgl.clear();
                    let mut i = 0;
                    while i < rules.len() {
                        let (t, _) = &rules[i];
                        // (a scripted trigger may be shared as well: `with_many` hands every extractor its own copy, and each copy is asked)
                        let stateless = !matches!(t, Trig::EveryKOrChange(_));
                        let mut j = i + 1;
                        while stateless && j < rules.len() && rules[j].0 == *t {
                            j += 1;
                        }
                        let trig: Box<dyn Condition<P>> = match t {
                            Trig::Always => EveryN::iterations(1),
                            Trig::Never => !EveryN::iterations(1),
                            Trig::EveryK(k) => EveryN::iterations(*k),
                            Trig::Scripted(o, ix) => Box::new(ScriptTrig { outcomes: o.clone(), ix: *ix, shared: sh.clone() }),
                            Trig::EveryKOrChange(k) => EveryN::iterations(*k) | ChangeOf::new(PartialEqChecker::new(), ValueOf::<Cw>::new()),
                        };
                        cfgl.with_many(trig, rules[i..j].iter().map(|r| ext_of(&r.1)).collect::<Vec<_>>());
                        i = j;
                    }
                    return Ok(());
                }
                for (t, e) in &rules {
                    let trig: Box<dyn Condition<P>> = match t {
                        Trig::Always => EveryN::iterations(1),
                        Trig::Never => !EveryN::iterations(1),
                        Trig::EveryK(k) => EveryN::iterations(*k),
                        Trig::Scripted(o, ix) => Box::new(ScriptTrig { outcomes: o.clone(), ix: *ix, shared: sh.clone() }),
                        Trig::EveryKOrChange(k) => EveryN::iterations(*k) | ChangeOf::new(PartialEqChecker::new(), ValueOf::<Cw>::new()),
                    };
                    match e {
                        Ext::Iterations => cfgl.with(trig, ValueOf::<Iterations>::entry()),
                        Ext::Evaluations => cfgl.with(trig, ValueOf::<Evaluations>::entry()),
                        Ext::CustomValueOf => cfgl.with(trig, ValueOf::<Cu>::entry()),
                        Ext::CustomId => cfgl.with(trig, IdLens::<Cu>::entry()),
                        Ext::MissingState => cfgl.with(trig, ValueOf::<Missing>::entry()),
                        Ext::BestObjective => cfgl.with(trig, BestObjectiveValueLens::<P>::entry()),
                        Ext::BestSolution => cfgl.with(trig, mahf::lens::common::BestSolutionLens::<P>::entry()),
                    };
                }
                Ok(())
            })
        })
        .map_err(|e| format!("{e:#}"))
    });
    rep.case();
    let g = shared.lock().unwrap();
    rep.count("logger_executions_observed", g.logger_executions);
    rep.count("logger_executions_with_a_firing_rule", g.firing_executions);
    rep.count("steps_fired_only_by_the_change_of_operand", g.fired_by_change_only);
    rep.count("infinite_objective_values_logged", g.nonfinite_logged);
    let desc = || json!({"rules": format!("{:?}", c.rules), "outer_iterations": c.n_outer, "logger_in_loop": c.logger_in_loop, "second_logger_in_loop": c.two_loggers_in_loop, "logger_after_loop": c.logger_after_loop, "nested_scope_loop_iterations": c.nested_scope_loop, "best_individual_state": c.with_best, "registered_through_clear_and_with_many": c.via_with_many, "starts_with_an_infinite_best": c.inf_best});
    let state = match res {
        Ok(Ok(s)) => s,
        other => {
            rep.violation("log:run-with-loggers-failed", json!({"case": desc(), "result": format!("{:?}", other.map(|r| r.map(|_| ())))}));
            return;
        }
    };
    // serialised through CBOR values rather than JSON so that +inf and "missing" stay apart
    let actual = cb2json(&ciborium::value::Value::serialized(&*state.log()).expect("log serialises"));
    let actual_steps: Vec<Vec<(String, Value)>> = actual
        .as_array()
        .unwrap()
        .iter()
        .map(|s| s.as_array().unwrap().iter().map(|e| (e["name"].as_str().unwrap().to_string(), e["value"].clone())).collect())
        .collect();
    if actual_steps != g.expected {
        let k = actual_steps.iter().zip(g.expected.iter()).take_while(|(a, b)| a == b).count();
        let kind = if actual_steps.len() < g.expected.len() && k == actual_steps.len() {
            "step-missing"
        } else if actual_steps.len() > g.expected.len() && k == g.expected.len() {
            "extra-step"
        } else if actual_steps.len() != g.expected.len() {
            "different-number-of-steps"
        } else {
            let (a, b) = (&actual_steps[k], &g.expected[k]);
            if a.len() != b.len() {
                "wrong-entries-in-step"
            } else if a.iter().map(|x| &x.0).ne(b.iter().map(|x| &x.0)) {
                "entry-order-or-names-wrong"
            } else {
                "entry-value-wrong"
            }
        };
        rep.violation(&format!("log:{kind}"), json!({"case": desc(), "first_difference_at_step": k, "actual_step": actual_steps.get(k), "expected_step": g.expected.get(k), "actual_steps": actual_steps.len(), "expected_steps": g.expected.len()}));
        return;
    }
    if !export {
        return;
    }
    // exports decode to exactly that sequence (per step as a name -> value map)
    let want: Vec<BTreeMap<String, Value>> = g.expected.iter().map(|s| s.iter().cloned().collect()).collect();
    let want_json: Vec<BTreeMap<String, Value>> = want.iter().map(|s| s.iter().map(|(k, v)| (k.clone(), json_view(v))).collect()).collect();
    let jpath = format!("{scratch}/log_{}.json", hash_of(&format!("{c:?}")));
    let cpath = format!("{scratch}/log_{}.cbor", hash_of(&format!("{c:?}")));
    let decode = |v: &Value| -> Vec<BTreeMap<String, Value>> {
        let names = v["names"].as_array().cloned().unwrap_or_default();
        v["entries"]
            .as_array()
            .cloned()
            .unwrap_or_default()
            .iter()
            .map(|e| e.as_object().map(|o| o.iter().map(|(k, val)| (k.parse::<usize>().ok().and_then(|i| names.get(i)).and_then(|n| n.as_str()).unwrap_or("?").to_string(), val.clone())).collect()).unwrap_or_default())
            .collect()
    };
    let num_eq = |a: &Vec<BTreeMap<String, Value>>, b: &Vec<BTreeMap<String, Value>>| {
        a.len() == b.len()
            && a.iter().zip(b).all(|(x, y)| {
                x.len() == y.len()
                    && x.iter().all(|(k, v)| match (v, y.get(k)) {
                        (Value::Number(p), Some(Value::Number(q))) => p.as_f64() == q.as_f64(),
                        (v, Some(w)) => v == w,
                        _ => false,
                    })
            })
    };
    rep.count("log_exports_decoded", 2);
    match state.log().to_json(&jpath).map_err(|e| e.to_string()).and_then(|_| std::fs::read_to_string(&jpath).map_err(|e| e.to_string())).and_then(|t| serde_json::from_str::<Value>(&t).map_err(|e| e.to_string())) {
        Ok(v) => {
            if !num_eq(&decode(&v), &want_json) {
                rep.violation("export:json-does-not-decode-to-the-log", json!({"case": desc(), "decoded_steps": decode(&v).len(), "expected_steps": want.len(), "decoded_first": decode(&v).first(), "expected_first": want.first()}));
            }
        }
        Err(e) => rep.violation("export:json-failed", json!({"case": desc(), "error": e})),
    }
    match state
        .log()
        .to_cbor(&cpath)
        .map_err(|e| e.to_string())
        .and_then(|_| std::fs::File::open(&cpath).map_err(|e| e.to_string()))
        .and_then(|f| ciborium::de::from_reader::<ciborium::value::Value, _>(std::io::BufReader::new(f)).map_err(|e| e.to_string()))
        .map(|v| cb2json(&v))
    {
        Ok(v) => {
            if !num_eq(&decode(&v), &want) {
                rep.violation("export:cbor-does-not-decode-to-the-log", json!({"case": desc(), "decoded_steps": decode(&v).len(), "expected_steps": want.len()}));
            }
        }
        Err(e) => rep.violation("export:cbor-failed", json!({"case": desc(), "error": e})),
    }
    let _ = std::fs::remove_file(&jpath);
    let _ = std::fs::remove_file(&cpath);
}

fn log_part(rep: &Reporter, scratch: &str) {
    let mut rng = SplitMix64::new(rep.seed).fork(0xC15);
    let exts = [Ext::Iterations, Ext::Evaluations, Ext::CustomValueOf, Ext::CustomId, Ext::MissingState, Ext::BestObjective, Ext::BestSolution];
    // systematic: all single rules and all ordered pairs of (trigger class, extractor) over a small trigger set
    let trigs = |ix: &mut usize| -> Vec<Trig> {
        let s = Trig::Scripted(vec![true, false, false, true, true, false, true], *ix);
        *ix += 1;
        vec![Trig::Always, Trig::Never, Trig::EveryK(2), Trig::EveryK(3), s, Trig::EveryKOrChange(4)]
    };
    let mut cases: Vec<LogCase> = Vec::new();
    for e1 in exts {
        let mut ix = 0;
        for t1 in trigs(&mut ix) {
            cases.push(LogCase { rules: vec![(t1.clone(), e1)], n_outer: 7, logger_in_loop: true, logger_after_loop: true, nested_scope_loop: None, two_loggers_in_loop: false, with_best: true, via_with_many: false, inf_best: false });
            if matches!(e1, Ext::BestObjective | Ext::BestSolution) {
                cases.push(LogCase { rules: vec![(t1.clone(), e1)], n_outer: 7, logger_in_loop: true, logger_after_loop: true, nested_scope_loop: Some(2), two_loggers_in_loop: false, with_best: true, via_with_many: false, inf_best: true });
            }
            if matches!(t1, Trig::EveryKOrChange(_)) {
                // the stateful trigger with loggers at both levels and twice in the loop
                cases.push(LogCase { rules: vec![(t1.clone(), e1)], n_outer: 9, logger_in_loop: true, logger_after_loop: true, nested_scope_loop: Some(3), two_loggers_in_loop: true, with_best: true, via_with_many: false, inf_best: false });
            }
            for e2 in exts {
                let mut ix2 = 1;
                for t2 in trigs(&mut ix2) {
                    let t1c = match &t1 {
                        Trig::Scripted(o, _) => Trig::Scripted(o.clone(), 0),
                        t => t.clone(),
                    };
                    let same = t1c == t2;
                    if same && matches!(t2, Trig::EveryKOrChange(_)) {
                        continue; // at most one change-of rule per rule set
                    }
                    cases.push(LogCase { rules: vec![(t1c, e1), (t2, e2)], n_outer: 6, logger_in_loop: true, logger_after_loop: false, nested_scope_loop: None, two_loggers_in_loop: false, with_best: e1 != Ext::MissingState, via_with_many: same && e1 != e2, inf_best: e1 == Ext::BestObjective && e2 == Ext::Iterations });
                }
            }
        }
    }
    // one scripted trigger shared by two or three extractors, registered through `with_many` and through separate `with` calls
    for (i, e1) in exts.iter().enumerate() {
        for e2 in &exts[i + 1..] {
            for via in [true, false] {
                let o = vec![true, false, true, true, false, false, true, false, true, true, false, true, true, false];
                cases.push(LogCase { rules: vec![(Trig::Scripted(o.clone(), 0), *e1), (Trig::Scripted(o.clone(), 0), *e2), (Trig::Scripted(o, 0), *e1)], n_outer: 6, logger_in_loop: true, logger_after_loop: true, nested_scope_loop: None, two_loggers_in_loop: false, with_best: true, via_with_many: via, inf_best: false });
            }
        }
    }
    rep.count("systematic_rule_sets", cases.len() as u64);
    // random: 0..4 rules, all placements, 0..12 iterations
    for _ in 0..rep.tier.pick(5_000, 600_000) {
        let nr = rng.usize(5);
        let mut ix = 0;
        let mut change_rule_used = false;
        let rules: Vec<(Trig, Ext)> = (0..nr)
            .map(|_| {
                let t = match rng.below(6) {
                    5 if !change_rule_used => {
                        change_rule_used = true;
                        Trig::EveryKOrChange(1 + rng.below(5) as u32)
                    }
                    0 | 5 => Trig::Always,
                    1 => Trig::Never,
                    2 => Trig::EveryK(1 + rng.below(4) as u32),
                    3 => Trig::EveryK(2),
                    _ => {
                        let o: Vec<bool> = (0..rng.usize(20)).map(|_| rng.bool()).collect();
                        ix += 1;
                        Trig::Scripted(o, ix - 1)
                    }
                };
                (t, *rng.pick(&exts))
            })
            .collect();
        cases.push(LogCase {
            rules,
            n_outer: rng.below(13) as u32,
            logger_in_loop: rng.chance(0.8),
            logger_after_loop: rng.chance(0.4),
            nested_scope_loop: if rng.chance(0.35) { Some(rng.below(4) as u32) } else { None },
            two_loggers_in_loop: rng.chance(0.25),
            with_best: rng.chance(0.7),
            via_with_many: rng.chance(0.3),
            inf_best: rng.chance(0.25),
        });
    }
    for (k, c) in cases.iter().enumerate() {
        rep.nontrivial(hash_of(&format!("{c:?}")));
        run_log_case(rep, c, scratch, k % 3 == 0);
    }
    rep.sample(json!({"log_case": format!("{:?}", cases[cases.len() / 2])}));
}

// ---- configuration export ------------------------------------------------------------------------------
#[derive(Clone, Debug, PartialEq, Eq, Hash)]
enum CD {
    LessThan(u32),
    Every(u32),
    Chance(u32), // per mille
    Optimum(u32),
    Not(Box<CD>),
    And(Vec<CD>),
    Or(Vec<CD>),
}
#[derive(Clone, Debug, PartialEq, Eq, Hash)]
enum ND {
    Normal(u32, u32),   // std_dev, rm (per mille)
    Tournament(u32, u32),
    Saturation,
    Swapless(u32), // FullyRandom(n)
    /// mapping::Linear(start, end) from a progress lens (0/1) into a generic state wrapper (0..4)
    Linear(u8, u8, u32),
    /// a component with an identifier type parameter: (kind: velocity update / normal mutation / evaluation step, identifier: Global / A / B)
    Ident(u8, u8),
    Seq(Vec<ND>),
    While(CD, Vec<ND>),
    If(CD, Vec<ND>),
    IfElse(CD, Vec<ND>, Vec<ND>),
    Scope(Vec<ND>),
}

fn build_c(c: &CD) -> Box<dyn Condition<P>> {
    match c {
        CD::LessThan(n) => LessThanN::iterations(*n),
        CD::Every(n) => EveryN::iterations(*n),
        CD::Chance(p) => RandomChance::new(*p as f64 / 1000.0),
        CD::Optimum(e) => OptimumReached::new(*e as f64 / 1000.0).unwrap(),
        CD::Not(x) => Not::new(build_c(x)),
        CD::And(v) => And::new(v.iter().map(build_c).collect::<Vec<_>>()),
        CD::Or(v) => Or::new(v.iter().map(build_c).collect::<Vec<_>>()),
    }
}
fn build_n(n: &ND) -> Box<dyn Component<P>> {
    match n {
        ND::Normal(s, r) => mutation::NormalMutation::new(*s as f64 / 1000.0, *r as f64 / 1000.0),
        ND::Tournament(a, b) => selection::Tournament::new(*a, *b),
        ND::Saturation => boundary::Saturation::new(),
        ND::Swapless(k) => selection::FullyRandom::new(*k),
        ND::Ident(kind, ident) => {
            use mahf::components::{evaluation::PopulationEvaluator, swarm::pso::ParticleVelocitiesUpdate};
            use mahf::identifier::{Global, A, B};
            macro_rules! with_id {
                ($I:ty) => {
                    match kind % 3 {
                        0 => ParticleVelocitiesUpdate::<$I>::new_with_id(0.5, 1.0, 1.0, 1.0).unwrap(),
                        1 => mutation::NormalMutation::<$I>::new_with_id(0.1, 0.5),
                        _ => PopulationEvaluator::<$I>::new_with(),
                    }
                };
            }
            match ident % 3 {
                0 => with_id!(Global),
                1 => with_id!(A),
                _ => with_id!(B),
            }
        }
        ND::Linear(i, o, e) => {
            use mahf::components::mapping::Linear;
            use mahf::components::mutation::{MutationRate, MutationStrength, NormalMutation, UniformMutation};
            use mahf::state::common::Progress;
            let end = *e as f64 / 1000.0;
            macro_rules! out {
                ($inp:expr) => {
                    match o % 4 {
                        0 => Linear::new(0.0, end, $inp, ValueOf::<MutationStrength<NormalMutation>>::new()),
                        1 => Linear::new(0.0, end, $inp, ValueOf::<MutationRate<NormalMutation>>::new()),
                        2 => Linear::new(0.0, end, $inp, ValueOf::<MutationStrength<UniformMutation>>::new()),
                        _ => Linear::new(0.0, end, $inp, ValueOf::<MutationRate<UniformMutation>>::new()),
                    }
                };
            }
            if i % 2 == 0 {
                out!(ValueOf::<Progress<ValueOf<Iterations>>>::new())
            } else {
                out!(ValueOf::<Progress<ValueOf<Evaluations>>>::new())
            }
        }
        ND::Seq(v) => Block::new(v.iter().map(build_n).collect::<Vec<_>>()),
        ND::While(c, b) => Loop::new(build_c(c), b.iter().map(build_n).collect::<Vec<_>>()),
        ND::If(c, b) => Branch::new(build_c(c), b.iter().map(build_n).collect::<Vec<_>>()),
        ND::IfElse(c, a, b) => Branch::new_with_else(build_c(c), a.iter().map(build_n).collect::<Vec<_>>(), b.iter().map(build_n).collect::<Vec<_>>()),
        ND::Scope(b) => Scope::new(b.iter().map(build_n).collect()),
    }
}

fn random_c(rng: &mut SplitMix64, depth: usize) -> CD {
    match rng.below(if depth >= 2 { 4 } else { 7 }) {
        0 => CD::LessThan(1 + rng.below(50) as u32),
        1 => CD::Every(1 + rng.below(9) as u32),
        2 => CD::Chance(rng.below(1001) as u32),
        3 => CD::Optimum(rng.below(900) as u32),
        4 => CD::Not(Box::new(random_c(rng, depth + 1))),
        5 => CD::And((0..1 + rng.usize(3)).map(|_| random_c(rng, depth + 1)).collect()),
        _ => CD::Or((0..1 + rng.usize(3)).map(|_| random_c(rng, depth + 1)).collect()),
    }
}
fn random_n(rng: &mut SplitMix64, depth: usize, budget: &mut usize) -> Vec<ND> {
    let n = 1 + rng.usize(3);
    let mut out = Vec::new();
    for _ in 0..n {
        if *budget == 0 {
            break;
        }
        *budget -= 1;
        out.push(match rng.below(if depth >= 3 { 4 } else { 9 }) {
            0 => ND::Normal(1 + rng.below(999) as u32, rng.below(1001) as u32),
            1 => ND::Tournament(1 + rng.below(20) as u32, 1 + rng.below(5) as u32),
            2 => ND::Saturation,
            3 => match rng.below(3) {
                0 => ND::Swapless(rng.below(30) as u32),
                1 => ND::Linear(rng.below(2) as u8, rng.below(4) as u8, rng.below(900) as u32),
                _ => ND::Ident(rng.below(3) as u8, rng.below(3) as u8),
            },
            4 => ND::Seq(random_n(rng, depth + 1, budget)),
            5 => ND::While(random_c(rng, 0), random_n(rng, depth + 1, budget)),
            6 => ND::If(random_c(rng, 0), random_n(rng, depth + 1, budget)),
            7 => ND::IfElse(random_c(rng, 0), random_n(rng, depth + 1, budget), random_n(rng, depth + 1, budget)),
            _ => ND::Scope(random_n(rng, depth + 1, budget)),
        });
    }
    out
}

/// All single edits of a tree: one parameter of one node changed, or one structural change.
fn edits_c(c: &CD) -> Vec<CD> {
    let mut out = vec![CD::Not(Box::new(c.clone()))];
    match c {
        CD::LessThan(n) => out.push(CD::LessThan(n + 1)),
        CD::Every(n) => out.push(CD::Every(n + 1)),
        CD::Chance(p) => out.push(CD::Chance((p + 1) % 1001)),
        CD::Optimum(e) => out.push(CD::Optimum(e + 1)),
        CD::Not(x) => {
            out.push((**x).clone());
            out.extend(edits_c(x).into_iter().map(|e| CD::Not(Box::new(e))));
        }
        CD::And(v) => {
            out.push(CD::Or(v.clone()));
            for i in 0..v.len() {
                for e in edits_c(&v[i]) {
                    let mut w = v.clone();
                    w[i] = e;
                    out.push(CD::And(w));
                }
            }
        }
        CD::Or(v) => {
            out.push(CD::And(v.clone()));
            for i in 0..v.len() {
                for e in edits_c(&v[i]) {
                    let mut w = v.clone();
                    w[i] = e;
                    out.push(CD::Or(w));
                }
            }
        }
    }
    out
}
fn edits_seq(v: &[ND]) -> Vec<Vec<ND>> {
    let mut out = Vec::new();
    for i in 0..v.len() {
        for e in edits_n(&v[i]) {
            let mut w = v.to_vec();
            w[i] = e;
            out.push(w);
        }
        let mut w = v.to_vec();
        w.remove(i);
        out.push(w);
    }
    let mut w = v.to_vec();
    w.push(ND::Saturation);
    out.push(w);
    out
}
fn edits_n(n: &ND) -> Vec<ND> {
    let mut out = vec![ND::Scope(vec![n.clone()])];
    match n {
        ND::Normal(s, r) => {
            out.push(ND::Normal(s + 1, *r));
            out.push(ND::Normal(*s, (r + 1) % 1001));
        }
        ND::Tournament(a, b) => {
            out.push(ND::Tournament(a + 1, *b));
            out.push(ND::Tournament(*a, b + 1));
        }
        ND::Saturation => out.push(ND::Swapless(0)),
        ND::Swapless(k) => out.push(ND::Swapless(k + 1)),
        ND::Ident(kind, ident) => {
            out.push(ND::Ident(*kind, (ident + 1) % 3));
            out.push(ND::Ident(*kind, (ident + 2) % 3));
            out.push(ND::Ident((kind + 1) % 3, *ident));
        }
        ND::Linear(i, o, e) => {
            out.push(ND::Linear(i + 1, *o, *e));
            for d in 1..4 {
                out.push(ND::Linear(*i, (o + d) % 4, *e));
            }
            out.push(ND::Linear(*i, *o, e + 1));
        }
        ND::Seq(v) => out.extend(edits_seq(v).into_iter().map(ND::Seq)),
        ND::While(c, b) => {
            out.extend(edits_c(c).into_iter().map(|e| ND::While(e, b.clone())));
            out.extend(edits_seq(b).into_iter().map(|e| ND::While(c.clone(), e)));
            out.push(ND::If(c.clone(), b.clone()));
        }
        ND::If(c, b) => {
            out.extend(edits_c(c).into_iter().map(|e| ND::If(e, b.clone())));
            out.extend(edits_seq(b).into_iter().map(|e| ND::If(c.clone(), e)));
            out.push(ND::IfElse(c.clone(), b.clone(), vec![]));
        }
        ND::IfElse(c, a, b) => {
            out.extend(edits_c(c).into_iter().map(|e| ND::IfElse(e, a.clone(), b.clone())));
            out.extend(edits_seq(a).into_iter().map(|e| ND::IfElse(c.clone(), e, b.clone())));
            out.extend(edits_seq(b).into_iter().map(|e| ND::IfElse(c.clone(), a.clone(), e)));
            out.push(ND::IfElse(c.clone(), b.clone(), a.clone()));
            out.push(ND::If(c.clone(), a.clone()));
        }
        ND::Scope(b) => out.extend(edits_seq(b).into_iter().map(ND::Scope)),
    }
    out
}

fn ron_of(cfg: &Configuration<P>, scratch: &str, tag: u64) -> Result<String, String> {
    let path = format!("{scratch}/cfg_{tag}.ron");
    let r = catch(|| cfg.to_ron(&path).map_err(|e| format!("{e:#}")));
    let out = match r {
        Ok(Ok(())) => std::fs::read_to_string(&path).map_err(|e| e.to_string()),
        Ok(Err(e)) => Err(e),
        Err(p) => Err(format!("panic: {p}")),
    };
    let _ = std::fs::remove_file(&path);
    out
}

/// A whole state logged through `with_auto` / `with_common` holds the value the state had - also when that value is
/// outside the range one would expect: the progress of an evaluation budget that was overshot by the last pass is > 1.
fn progress_above_one(rep: &Reporter, scratch: &str) {
    use mahf::state::common::Progress;
    type Pe = Progress<ValueOf<Evaluations>>;
    for budget in [5u32, 7, 9] {
        rep.case();
        rep.nontrivial(hash_of(&("progress-above-one", budget)));
        let cfg = Configuration::<P>::builder().while_(LessThanN::evaluations(budget), |b| b.do_(Box::new(Bump { best_from: 0 }))).do_(Logger::new()).build();
        let problem = Real::new(1, -1.0, 1.0, RealFn::Sphere);
        let res = catch(|| {
            cfg.optimize_with(&problem, |state| {
                state.insert(Cu(1));
                state.insert(Cw(0));
                state.insert(Evaluations(0));
                state.configure_log(|c| {
                    *c = mahf::logging::LogConfig::new();
                    c.with_auto::<Pe>(EveryN::iterations(1)).with_common(EveryN::iterations(1));
                    Ok(())
                })
            })
            .map_err(|e| format!("{e:#}"))
        });
        let state = match res {
            Ok(Ok(s)) => s,
            other => {
                rep.violation("log:run-with-loggers-failed", json!({"case": "progress above one", "result": format!("{:?}", other.map(|r| r.map(|_| ())))}));
                continue;
            }
        };
        let want = state.get_value::<Pe>();
        let name = std::any::type_name::<Pe>();
        let find = |v: &Value| -> Option<Value> {
            // in-memory form: steps of entries {name, value}
            v.as_array()?.last()?.as_array()?.iter().find(|e| e["name"].as_str() == Some(name)).map(|e| e["value"].clone())
        };
        let mem = cb2json(&ciborium::value::Value::serialized(&*state.log()).expect("log serialises"));
        let got = find(&mem);
        let cpath = format!("{scratch}/progress_{budget}.cbor");
        let exported = state
            .log()
            .to_cbor(&cpath)
            .ok()
            .and_then(|_| std::fs::File::open(&cpath).ok())
            .and_then(|f| ciborium::de::from_reader::<ciborium::value::Value, _>(std::io::BufReader::new(f)).ok())
            .map(|v| cb2json(&v))
            .and_then(|v| {
                let names = v["names"].as_array().cloned().unwrap_or_default();
                let ix = names.iter().position(|n| n.as_str() == Some(name))?;
                v["entries"].as_array()?.last()?.get(ix.to_string()).cloned()
            });
        let _ = std::fs::remove_file(&cpath);
        rep.count("whole_state_values_above_one_logged", (want > 1.0) as u64);
        if got.as_ref().and_then(|v| v.as_f64()) != Some(want) || exported.as_ref().and_then(|v| v.as_f64()) != Some(want) {
            rep.violation("log:whole-state-entry-differs-from-the-state", json!({"state": name, "value_in_the_state": want, "logged": got, "exported (cbor)": exported, "budget": budget}));
        }
    }
}

fn config_part(rep: &Reporter, scratch: &str) {
    let mut rng = SplitMix64::new(rep.seed).fork(0xC15_2);
    let n_trees = rep.tier.pick(400, 30_000);
    for t in 0..n_trees {
        let mut budget = 2 + rng.usize(10);
        let tree = random_n(&mut rng, 0, &mut budget);
        let mut family: Vec<Vec<ND>> = vec![tree.clone()];
        family.extend(edits_seq(&tree));
        family.sort_by_key(|f| hash_of(f));
        family.dedup();
        let mut texts: HashMap<String, Vec<ND>> = HashMap::new();
        for (k, f) in family.iter().enumerate() {
            rep.case();
            let cfg = Configuration::new(Block::new(f.iter().map(build_n).collect::<Vec<_>>()));
            let text = match ron_of(&cfg, scratch, (t * 100_000 + k) as u64) {
                Ok(t) => t,
                Err(e) => {
                    rep.violation("config-export:serialisation-fails", json!({"tree": format!("{f:?}"), "error": e}));
                    continue;
                }
            };
            rep.count("configuration_exports", 1);
            if k == 0 {
                rep.nontrivial(hash_of(&text));
                // a clone serialises identically
                match ron_of(&Configuration::clone(&cfg), scratch, (t * 100_000 + 99_999) as u64) {
                    Ok(t2) if t2 == text => {}
                    other => rep.violation("config-export:clone-serialises-differently", json!({"tree": format!("{f:?}"), "clone": format!("{other:?}").chars().take(300).collect::<String>()})),
                }
            }
            if let Some(prev) = texts.get(&text) {
                let kind = classify_collision(prev, f);
                rep.violation(&format!("config-export:different-configurations-serialise-identically:{kind}"), json!({"tree_a": format!("{prev:?}"), "tree_b": format!("{f:?}"), "serialisation": text.chars().take(600).collect::<String>()}));
            } else {
                texts.insert(text, f.clone());
            }
        }
        rep.count("configuration_families", 1);
    }
    // naming and nesting: distinctive parameter values appear, in pre-order
    for _ in 0..rep.tier.pick(100, 30_000) {
        rep.case();
        let a = 100 + rng.below(800) as u32;
        let b = 1 + rng.below(50) as u32;
        let c = 51 + rng.below(40) as u32;
        let tree = vec![ND::Tournament(a, 3), ND::While(CD::Not(Box::new(CD::LessThan(b))), vec![ND::Normal(a + 1, 500), ND::Scope(vec![ND::Swapless(c)])]), ND::Swapless(c + 1)];
        let cfg = Configuration::new(Block::new(tree.iter().map(build_n).collect::<Vec<_>>()));
        match ron_of(&cfg, scratch, 7) {
            Ok(text) => {
                let needles = [format!("num_selected: {a}"), "Not(".to_string(), format!("n: {b}"), format!("std_dev: {}", (a + 1) as f64 / 1000.0), format!("num_selected: {c}"), format!("num_selected: {}", c + 1)];
                let mut pos = 0;
                for n in &needles {
                    match text[pos..].find(n.as_str()) {
                        Some(i) => pos += i + n.len(),
                        None => {
                            rep.violation("config-export:component-or-parameter-not-named-in-pre-order", json!({"tree": format!("{tree:?}"), "missing_or_out_of_order": n, "serialisation": text.chars().take(900).collect::<String>()}));
                            break;
                        }
                    }
                }
                for name in ["Tournament", "Loop", "LessThanN", "NormalMutation", "Scope", "FullyRandom"] {
                    if !text.contains(name) {
                        rep.violation("config-export:component-name-missing", json!({"name": name, "serialisation": text.chars().take(900).collect::<String>()}));
                    }
                }
            }
            Err(e) => rep.violation("config-export:serialisation-fails", json!({"tree": format!("{tree:?}"), "error": e})),
        }
    }
    rep.sample(json!({"configuration_family": "a random tree over {NormalMutation, Tournament, Saturation, FullyRandom, block, while, if, if/else, scope} with conditions over {LessThanN, EveryN, RandomChance, OptimumReached, Not, And, Or} plus every single-parameter and single-structure edit of it; all members must serialise to pairwise different RON"}));
}

fn classify_collision(a: &[ND], b: &[ND]) -> &'static str {
    let sa = format!("{a:?}");
    let sb = format!("{b:?}");
    let count = |s: &str, pat: &str| s.matches(pat).count();
    if count(&sa, "Not(") != count(&sb, "Not(") {
        "negation-lost"
    } else if count(&sa, "Scope(") != count(&sb, "Scope(") {
        "scope-lost"
    } else if count(&sa, "And(") != count(&sb, "And(") {
        "and-or-confused"
    } else if count(&sa, "Ident(") > 0 && sa.len() == sb.len() && count(&sa, "Linear(") == 0 {
        "identifier-or-parameter-value-lost"
    } else if count(&sa, "Linear(") > 0 && sa.len() == sb.len() {
        "lens-target-or-parameter-value-lost"
    } else if sa.len() == sb.len() {
        "parameter-value-lost"
    } else {
        "structure-lost"
    }
}

struct TV<'r> {
    rep: &'r Reporter,
    scratch: String,
    texts: Mutex<HashMap<String, String>>,
}
impl<'r> TemplateVisitor for TV<'r> {
    fn visit<Q>(&mut self, meta: &CaseMeta, cfg: Configuration<Q>, _problem: &Q)
    where
        Q: Instrumented + KnownOptimumProblem,
    {
        let rep = self.rep;
        rep.case();
        let key = format!("{:?}|{}|n={}|opt={}", meta.tmpl, meta.params, meta.n, !meta.exact_iters);
        rep.nontrivial(hash_of(&key));
        rep.distinct("templates", hash_of(&meta.tmpl));
        let path = format!("{}/tmpl_{}.ron", self.scratch, hash_of(&key));
        let r = catch(|| cfg.to_ron(&path).map_err(|e| format!("{e:#}")));
        let text = match r {
            Ok(Ok(())) => std::fs::read_to_string(&path).unwrap_or_default(),
            other => {
                rep.violation(&format!("config-export:template-cannot-be-serialised:{:?}", meta.tmpl), json!({"meta": meta, "result": format!("{other:?}")}));
                return;
            }
        };
        let _ = std::fs::remove_file(&path);
        rep.count("template_exports", 1);
        let path2 = format!("{}/tmplc_{}.ron", self.scratch, hash_of(&key));
        if Configuration::clone(&cfg).to_ron(&path2).is_err() || std::fs::read_to_string(&path2).unwrap_or_default() != text {
            rep.violation("config-export:clone-serialises-differently", json!({"meta": meta}));
        }
        let _ = std::fs::remove_file(&path2);
        let mut g = self.texts.lock().unwrap();
        match g.get(&text) {
            Some(prev) if *prev != key => rep.violation("config-export:different-templates-or-parameters-serialise-identically", json!({"a": prev, "b": key})),
            _ => {
                g.insert(text.clone(), key);
            }
        }
        // the requested iteration bound is named
        if !text.contains(&format!("n: {}", meta.n)) {
            rep.violation("config-export:parameter-value-missing", json!({"meta": meta, "expected_text": format!("n: {}", meta.n)}));
        }
    }
}

fn main() {
    let rep = Reporter::from_args("C15");
    rep.rule("(1) log: rule sets over triggers {always, never, every-k, scripted sequence, every-k | change-of(a slowly changing value) - a stateful operand behind another operand, modelled per scope in which a logger initialised it} x extractors {iterations, evaluations, custom state via ValueOf and via IdLens (same name), missing state, best objective - also while it is +inf -, best solution} - all single rules and all pairs systematically, random sets of 0..4 rules - with loggers inside a loop (once or twice), after it, and in a loop nested in a scope, 0..12 iterations; an oracle probe directly in front of every logger computes the step that must be appended (one step per execution with a firing rule, entries in rule order, first rule wins a repeated name, explicit null for a missing source, iteration count first unless a rule already extracted it, nothing when nothing fires); the in-memory log must equal that sequence and (every third case) the JSON and CBOR exports must decode to it; (2) configuration export: families of a random configuration tree plus all its single-parameter and single-structure edits must serialise (RON) to pairwise different texts, a clone identically, names and parameter values in pre-order; every template x parameter set x n serialises, pairwise differently, with its parameters. distinct_nontrivial = distinct log cases + distinct base trees + distinct template cells");
    rep.assume("logger placements without a visible iteration counter are not exercised; within-step order is not representable in the compressed export and is compared as a map there; values are compared as CBOR values (so +inf and an explicit null stay apart) except in the JSON export, whose format cannot hold non-finite numbers (null there is not judged); at most one change-of rule per rule set; rules sharing one scripted trigger each consume one script position per logger execution (every rule owns a copy of its trigger)");
    let scratch = std::env::var("VERIF_SCRATCH").unwrap_or_else(|_| format!("{}/target/scratch/manual", mv::verif_root().display()));
    let _ = std::fs::create_dir_all(&scratch);
    log_part(&rep, &scratch);
    progress_above_one(&rep, &scratch);
    config_part(&rep, &scratch);
    let mut tv = TV { rep: &rep, scratch: scratch.clone(), texts: Mutex::new(HashMap::new()) };
    let mut seen = std::collections::HashSet::new();
    for c in templates::cases(true, rep.seed, 1) {
        if seen.insert((c.tmpl, c.pset, c.n)) {
            let mut c = c;
            c.with_optimum = c.n == 5;
            templates::dispatch(&c, &mut tv, &mut |m, e| rep.violation(&format!("config-export:template-constructor-fails:{:?}", m.tmpl), json!({"meta": m, "error": e})));
        }
    }
    if rep.distinct_len("templates") < 21 {
        rep.inconclusive("not all 21 templates were exported");
    }
    rep.finish();
}
