//! C12 — replacement merges the two top populations as its name says.
use mahf::{
    components::replacement,
    state::{common::Populations, Random},
    Component, Individual, State,
};
use mv::{
    catch, hash_of, num_workers,
    problems::{tagged, TagP},
    report::Local,
    Reporter, SplitMix64,
};
use serde_json::json;

type T = (u32, u64);
fn val(t: &T) -> f64 {
    f64::from_bits(t.1)
}
fn view(i: &Individual<TagP>) -> T {
    (*i.solution(), i.get_objective().map(|o| o.value().to_bits()).unwrap_or(u64::MAX))
}
fn mk(t: &T) -> Individual<TagP> {
    tagged(t.0, Some(val(t)))
}
fn show(p: &[T]) -> Vec<(u32, f64)> {
    p.iter().map(|t| (t.0, val(t))).collect()
}

#[derive(Clone, Copy, Debug, PartialEq, Eq, Hash)]
enum Op {
    Discard,
    Generational,
    Merge,
    MuPlusLambda(u32),
    Random(u32),
    KeepBetter,
}

fn component(op: Op) -> Box<dyn Component<TagP>> {
    match op {
        Op::Discard => replacement::DiscardOffspring::new(),
        Op::Generational => replacement::Generational::new(3),
        Op::Merge => replacement::Merge::new(),
        Op::MuPlusLambda(m) => replacement::MuPlusLambda::new(m),
        Op::Random(m) => replacement::RandomReplacement::new(m),
        Op::KeepBetter => replacement::KeepBetterAtIndex::new(),
    }
}

fn run_case(below: &[T], parents: &[T], offspring: &[T], op: Op, seed: u64) -> Option<(String, String)> {
    let mut st = State::<TagP>::new();
    let mut p = Populations::<TagP>::new();
    p.push(below.iter().map(mk).collect());
    p.push(parents.iter().map(mk).collect());
    p.push(offspring.iter().map(mk).collect());
    st.insert(p);
    st.insert(Random::new(seed));
    let comp = component(op);
    // the operator is initialised like in a run; for odd seeds a second instance of the same operator with other
    // parameters is initialised after it in the same state (two replacement steps in one configuration): each
    // instance works with its own parameters
    let r = catch(|| {
        comp.init(&TagP, &mut st).map_err(|e| format!("init: {e:#}"))?;
        if seed % 2 == 1 {
            let twin = match op {
                Op::MuPlusLambda(m) => replacement::MuPlusLambda::new::<TagP>(m + 2),
                Op::Random(m) => replacement::RandomReplacement::new::<TagP>(m + 2),
                Op::Generational => replacement::Generational::new::<TagP>(1),
                _ => component(op),
            };
            twin.init(&TagP, &mut st).map_err(|e| format!("init of the second instance: {e:#}"))?;
        }
        comp.execute(&TagP, &mut st).map_err(|e| format!("{e:#}"))
    });
    let name = format!("{op:?}").split('(').next().unwrap().to_string();
    let shape = format!("parents-{}:offspring-{}", if parents.is_empty() { "empty" } else { "nonempty" }, if offspring.is_empty() { "empty" } else { "nonempty" });
    let r = match r {
        Err(p) => return Some((format!("{name}:panic:{shape}"), format!("panicked: {p}"))),
        Ok(r) => r,
    };
    if op == Op::KeepBetter && parents.len() != offspring.len() {
        return match r {
            Err(_) => {
                // the refused step either left both populations alone or consumed both - not one of them, and never the one beneath
                let pops = st.populations();
                let mut stack: Vec<Vec<T>> = Vec::new();
                let mut d = 0;
                while let Some(pop) = pops.try_peek(d) {
                    stack.push(pop.iter().map(view).collect());
                    d += 1;
                }
                stack.reverse();
                let untouched = stack.len() == 3 && stack[0] == below && stack[1] == parents && stack[2] == offspring;
                let both_consumed = stack.len() == 1 && stack[0] == below;
                if untouched || both_consumed {
                    None
                } else {
                    Some((format!("{name}:refused-step-leaves-the-two-populations-half-consumed"), format!("stack after the error: {:?}", stack.iter().map(|p| show(p)).collect::<Vec<_>>())))
                }
            }
            Ok(()) => Some((format!("{name}:unequal-sizes-not-reported"), format!("parents {:?} offspring {:?} accepted", show(parents), show(offspring)))),
        };
    }
    if let Err(e) = r {
        return Some((format!("{name}:error-on-valid-input:{shape}"), e));
    }
    let pops = st.populations();
    let mut stack: Vec<Vec<T>> = Vec::new();
    let mut d = 0;
    while let Some(pop) = pops.try_peek(d) {
        stack.push(pop.iter().map(view).collect());
        d += 1;
    }
    stack.reverse();
    if stack.len() != 2 || stack[0] != below {
        return Some((format!("{name}:does-not-leave-exactly-one-population:{shape}"), format!("stack after: {:?}", stack.iter().map(|p| show(p)).collect::<Vec<_>>())));
    }
    let res = &stack[1];
    // sub-multiset of parents + offspring (tags are unique, so: each member is one of them, at most once)
    let mut pool: Vec<T> = parents.iter().chain(offspring.iter()).cloned().collect();
    for m in res {
        match pool.iter().position(|x| x == m) {
            Some(i) => drop(pool.remove(i)),
            None => return Some((format!("{name}:member-not-from-parents-or-offspring-or-duplicated"), format!("result {:?} from parents {:?} offspring {:?}", show(res), show(parents), show(offspring)))),
        }
    }
    let discarded = pool;
    let total = parents.len() + offspring.len();
    let bad = |what: &str| Some((format!("{name}:{what}:{shape}"), format!("parents {:?} offspring {:?} -> {:?}", show(parents), show(offspring), show(res))));
    match op {
        Op::Discard => {
            if res != parents {
                return bad("result-is-not-the-parents");
            }
        }
        Op::Generational => {
            if res != offspring {
                return bad("result-is-not-the-offspring");
            }
        }
        Op::Merge => {
            let want: Vec<T> = parents.iter().chain(offspring.iter()).cloned().collect();
            if *res != want {
                return bad("result-is-not-the-concatenation");
            }
        }
        Op::MuPlusLambda(m) => {
            if res.len() != (m as usize).min(total) {
                return bad("wrong-size");
            }
            let worst_kept = res.iter().map(val).fold(f64::NEG_INFINITY, f64::max);
            let best_discarded = discarded.iter().map(val).fold(f64::INFINITY, f64::min);
            if !res.is_empty() && !discarded.is_empty() && worst_kept > best_discarded {
                return bad("a-discarded-individual-is-better-than-a-kept-one");
            }
        }
        Op::Random(m) => {
            if res.len() != (m as usize).min(total) {
                return bad("wrong-size");
            }
        }
        Op::KeepBetter => {
            if res.len() != parents.len() {
                return bad("wrong-size");
            }
            for i in 0..res.len() {
                let want = if val(&offspring[i]) < val(&parents[i]) { offspring[i] } else { parents[i] };
                if res[i] != want {
                    let kind = if val(&offspring[i]) == val(&parents[i]) { "tie-not-kept-by-the-parent" } else { "not-the-better-at-index" };
                    return bad(kind);
                }
            }
        }
    }
    None
}

fn all_pops(max: usize, tag0: u32) -> Vec<Vec<T>> {
    // -0.0 and 0.0 are the same objective value: a tie like any other
    let grid = [-1.0f64, 0.0, -0.0, 2.0, f64::INFINITY];
    let g = grid.len();
    let mut out = vec![vec![]];
    for len in 1..=max {
        for code in 0..g.pow(len as u32) {
            let mut c = code;
            out.push((0..len).map(|i| { let v = grid[c % g]; c /= g; (tag0 + i as u32, v.to_bits()) }).collect());
        }
    }
    out
}

fn main() {
    let rep = Reporter::from_args("C12");
    rep.rule("all pairs of parent/offspring populations of uniquely tagged individuals of size 0..max over objective values {-1,0,-0,2,+inf} (ties and duplicates of values included, signed zeros tie) under a third untouched population, x all six replacement components x mu in 0..total+2 (x seeds for the random one), each initialised as in a run and, for odd seeds, followed by the initialisation of a second instance with other parameters in the same state: height -1, bottom untouched, result a sub-multiset of parents+offspring, content as the operator is named (parents / offspring / concatenation / min(mu,total) best with no discarded individual better than a kept one / any min(mu,total) / index-wise better with ties to the parent and Err on unequal sizes); plus random larger populations (0..12 members, one in twelve 13..102; incl. values one rounding error apart, which are different and must be told apart). distinct_nontrivial = distinct (operator, parents, offspring) cells (sampled 1/5)");
    let max = rep.tier.pick(4usize, 5usize);
    rep.set("exhaustive_max_population_size", json!(max));
    let parents_all = all_pops(max, 1);
    let offspring_all = all_pops(max, 11);
    let below: Vec<T> = vec![(90, 1.5f64.to_bits())];
    let np = parents_all.len();
    let total = np * offspring_all.len();
    std::thread::scope(|s| {
        for range in mv::shards(total, num_workers()) {
            let (pa, of, below, rep) = (&parents_all, &offspring_all, &below, &rep);
            s.spawn(move || {
                let mut local = Local::new();
                for idx in range {
                    let parents = &pa[idx % np];
                    let offspring = &of[idx / np];
                    let tot = parents.len() + offspring.len();
                    let mut ops = vec![Op::Discard, Op::Generational, Op::Merge, Op::KeepBetter];
                    for m in 0..=tot as u32 + 2 {
                        ops.push(Op::MuPlusLambda(m));
                        ops.push(Op::Random(m));
                    }
                    for op in ops {
                        let seeds = if matches!(op, Op::Random(_)) { rep.tier.pick(2u64, 8u64) } else { 1 };
                        for seed in 0..seeds {
                            local.case();
                            if idx % 5 == 0 {
                                local.nontrivial(hash_of(&(op, idx)));
                            }
                            if let Some((sig, msg)) = run_case(below, parents, offspring, op, seed + idx as u64) {
                                rep.violation(&sig, json!({"operator": format!("{op:?}"), "observed": msg}));
                            }
                        }
                    }
                }
                rep.merge(local);
            });
        }
    });
    rep.count("exhaustive_population_pairs", total as u64);
    // random larger populations
    let mut rng = SplitMix64::new(rep.seed).fork(0xC12);
    for k in 0..rep.tier.pick(2_000, 3_000_000) {
        let mut tag = 0;
        let mut pop = |rng: &mut SplitMix64| -> Vec<T> {
            // mostly 0..12 members; one case in twelve is well above the sizes at which sorting routines switch algorithm
            (0..if rng.chance(0.08) { 13 + rng.usize(90) } else { rng.usize(13) })
                .map(|_| {
                    tag += 1;
                    // incl. values one rounding error apart (0.6 / 0.6000000000000001): different, not tied
                    let v = if rng.chance(0.1) { f64::INFINITY } else if rng.chance(0.15) { *rng.pick(&[0.6, 0.6000000000000001, 0.6000000000000002, -0.0]) } else { (rng.below(9) as f64) - 4.0 };
                    (tag, v.to_bits())
                })
                .collect()
        };
        let parents = pop(&mut rng);
        let offspring = if rng.chance(0.4) { parents.iter().map(|t| { (t.0 + 100, if rng.chance(0.4) { t.1 } else { ((rng.below(9) as f64) - 4.0).to_bits() }) }).collect() } else { pop(&mut rng) };
        let tot = (parents.len() + offspring.len()) as u32;
        let op = match rng.below(6) {
            0 => Op::Discard,
            1 => Op::Generational,
            2 => Op::Merge,
            3 => Op::MuPlusLambda(rng.below(tot as u64 + 3) as u32),
            4 => Op::Random(rng.below(tot as u64 + 3) as u32),
            _ => Op::KeepBetter,
        };
        rep.case();
        rep.nontrivial(hash_of(&("random", k)));
        if let Some((sig, msg)) = run_case(&below, &parents, &offspring, op, rng.next_u64()) {
            rep.violation(&sig, json!({"operator": format!("{op:?}"), "observed": msg}));
        }
    }
    // "mu random ones": over many seeds every member of parents + offspring survives about equally often (mu / total)
    {
        let n_seeds = rep.tier.pick(20_000u64, 400_000u64);
        let band = ((2.0f64 / 1e-10).ln() / (2.0 * n_seeds as f64)).sqrt();
        for &(np, no, mu) in &[(2usize, 10usize, 2u32), (4, 4, 4), (6, 2, 3), (1, 7, 1), (5, 5, 9), (3, 9, 6)] {
            rep.case();
            rep.nontrivial(hash_of(&("random-frequency", np, no, mu)));
            let parents: Vec<T> = (0..np).map(|i| (1 + i as u32, (i as f64).to_bits())).collect();
            let offspring: Vec<T> = (0..no).map(|i| (101 + i as u32, (10.0 + i as f64).to_bits())).collect();
            let total = np + no;
            let mut kept = vec![0u64; total];
            let comp = replacement::RandomReplacement::new::<TagP>(mu);
            let mut failed = None;
            for seed in 0..n_seeds {
                let mut st = State::<TagP>::new();
                let mut p = Populations::<TagP>::new();
                p.push(parents.iter().map(mk).collect());
                p.push(offspring.iter().map(mk).collect());
                st.insert(p);
                st.insert(Random::new(seed ^ rep.seed.wrapping_mul(0x9E37_79B9)));
                match catch(|| comp.execute(&TagP, &mut st).map_err(|e| e.to_string())) {
                    Ok(Ok(())) => {
                        for ind in st.populations().current() {
                            let t = view(ind);
                            if let Some(ix) = parents.iter().chain(offspring.iter()).position(|x| *x == t) {
                                kept[ix] += 1;
                            }
                        }
                    }
                    other => {
                        failed = Some(format!("{other:?}"));
                        break;
                    }
                }
            }
            let want = (mu as usize).min(total) as f64 / total as f64;
            let freq: Vec<f64> = kept.iter().map(|k| *k as f64 / n_seeds as f64).collect();
            if failed.is_some() || freq.iter().any(|f| (f - want).abs() > band) {
                rep.violation("Random:survivors-are-not-a-uniformly-random-choice", json!({"parents": np, "offspring": no, "mu": mu, "seeds": n_seeds, "survival_frequency_per_member (parents first)": freq, "expected": want, "band": band, "failure": failed}));
            }
        }
        rep.set("random_replacement_frequency_seeds", json!(n_seeds));
    }
    rep.sample(json!({"operator": "KeepBetterAtIndex", "parents": [[1, 0.0], [2, 2.0]], "offspring": [[11, 0.0], [12, -1.0]], "expected": [[1, 0.0], [12, -1.0]], "note": "tie at index 0 stays with the parent"}));
    rep.exhaustive(true);
    rep.finish();
}
