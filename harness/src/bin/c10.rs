//! C10 — conditions decide what their names say; loops make exactly n passes.
use std::sync::{
    atomic::{AtomicU32, Ordering},
    Arc, Mutex,
};

use better_any::{Tid, TidAble};
use derive_more::{Deref, DerefMut};
use mahf::{
    components::Loop,
    conditions::{
        common::{DeltaEqChecker, PartialEqChecker},
        And, ChangeOf, Condition, EveryN, LessThanN, Not, OptimumReached, Or, RandomChance,
    },
    lens::ValueOf,
    state::common::{BestIndividual, Evaluations, Iterations, Populations, Progress},
    Component, Configuration, CustomState, ExecResult, Individual, SingleObjective, State,
};
use mv::{catch, hash_of, problems::*, Reporter, SplitMix64};
use serde::Serialize;
use serde_json::json;

#[derive(Tid, Deref, DerefMut, Default)]
struct ValU(u32);
impl CustomState<'_> for ValU {}
#[derive(Tid, Deref, DerefMut)]
struct ValW(u32);
impl CustomState<'_> for ValW {}
#[derive(Tid, Deref, DerefMut)]
struct ValF(f64);
impl CustomState<'_> for ValF {}
#[derive(Tid, Deref, DerefMut)]
struct ValO(SingleObjective);
impl CustomState<'_> for ValO {}

type P = Real;
fn problem() -> Real {
    Real::new(2, -1.0, 1.0, RealFn::Sphere)
}
fn so(v: f64) -> SingleObjective {
    v.try_into().unwrap()
}

/// Runs `f` on `st` itself (depth 0) or inside `depth` nested child scopes of it: whatever a condition
/// observes in an enclosing scope it must see through any number of scopes opened in between.
fn at_depth<R>(st: &mut State<P>, depth: usize, f: &mut dyn FnMut(&mut State<P>) -> R) -> R {
    if depth == 0 {
        return f(st);
    }
    let mut out = None;
    let _ = st.with_inner_state(|inner| {
        out = Some(at_depth(inner, depth - 1, f));
        Ok(())
    });
    out.expect("closure ran")
}

// ---- less-than-n / every-n --------------------------------------------------------------------
fn less_than_n(rep: &Reporter) {
    let p = problem();
    let mut rng = SplitMix64::new(rep.seed).fork(0xC10);
    for &n in &[1u32, 2, 3, 7, 10, 1000] {
        let mut values: Vec<u32> = (0..=n.min(20) + 2).collect();
        values.extend([n.saturating_sub(1), n, n + 1, n + 2, 10 * n]);
        for _ in 0..20 {
            values.push(rng.below(2 * n as u64 + 5) as u32);
        }
        let cond = LessThanN::new::<P>(n, ValueOf::<ValU>::new());
        let cond_it = LessThanN::iterations::<P>(n);
        let cond_ev = LessThanN::evaluations::<P>(n);
        for &v in &values {
            rep.case();
            rep.nontrivial(hash_of(&("lt", n, v)));
            let mut st: State<P> = State::new();
            st.insert(ValU(v));
            st.insert(Iterations(v));
            st.insert(Evaluations(v));
            for (which, c) in [("custom-lens", &cond), ("iterations", &cond_it), ("evaluations", &cond_ev)] {
                // initialised in the caller's scope, evaluated there or one / two scopes further in (v picks which)
                let depth = (v % 3) as usize;
                let r = catch(|| {
                    c.init(&p, &mut st)?;
                    at_depth(&mut st, depth, &mut |s| c.evaluate(&p, s))
                });
                let progress = match which {
                    "custom-lens" => st.try_get_value::<Progress<ValueOf<ValU>>>().ok(),
                    "iterations" => st.try_get_value::<Progress<ValueOf<Iterations>>>().ok(),
                    _ => st.try_get_value::<Progress<ValueOf<Evaluations>>>().ok(),
                };
                let want = v < n;
                match r {
                    Ok(Ok(b)) if b == want => {}
                    other => rep.violation(&format!("less-than-n:{which}:wrong-result:{}", if v < n { "below" } else if v == n { "equal" } else { "above" }), json!({"n": n, "value": v, "result": format!("{other:?}"), "expected": want})),
                }
                let wantp = v as f64 / n as f64;
                if progress.map(f64::to_bits) != Some(wantp.to_bits()) {
                    rep.violation(&format!("less-than-n:{which}:progress-wrong"), json!({"n": n, "value": v, "progress": progress, "expected": wantp}));
                }
            }
        }
        // float-valued lens
        let condf = LessThanN::new::<P>(n as f64 + 0.5, ValueOf::<ValF>::new());
        for &v in &[0.0, 0.49, n as f64, n as f64 + 0.5, n as f64 + 0.5000001, -3.0, 1e9] {
            rep.case();
            let mut st: State<P> = State::new();
            st.insert(ValF(v));
            let r = catch(|| {
                condf.init(&p, &mut st)?;
                condf.evaluate(&p, &mut st)
            });
            if !matches!(r, Ok(Ok(b)) if b == (v < n as f64 + 0.5)) {
                rep.violation("less-than-n:float-lens:wrong-result", json!({"n": n as f64 + 0.5, "value": v, "result": format!("{r:?}")}));
            }
        }
    }
    // every bound up to 256 (and a few large ones) exactly at the bound: n is not below n, n - 1 is, and the progress at
    // the bound is exactly 1 (bounds whose reciprocal is not exact included)
    for n in (1u32..=256).chain([1000, 4097, 65_535, 1_000_003]) {
        let c = LessThanN::new::<P>(n, ValueOf::<ValU>::new());
        for v in [n - 1, n, n + 1] {
            rep.case();
            let mut st: State<P> = State::new();
            st.insert(ValU(v));
            let r = catch(|| {
                c.init(&p, &mut st)?;
                c.evaluate(&p, &mut st)
            });
            let progress = st.try_get_value::<Progress<ValueOf<ValU>>>().ok();
            if !matches!(r, Ok(Ok(b)) if b == (v < n)) || progress.map(f64::to_bits) != Some((v as f64 / n as f64).to_bits()) {
                rep.violation(&format!("less-than-n:at-the-bound:{}", if v < n { "below" } else if v == n { "equal" } else { "above" }), json!({"n": n, "value": v, "result": format!("{r:?}"), "progress": progress, "expected": [json!(v < n), json!(v as f64 / n as f64)]}));
            }
        }
    }
    // every-n
    for &n in &[1u32, 2, 3, 7, 10] {
        let c = EveryN::new::<P>(n, ValueOf::<ValU>::new());
        let ci = EveryN::iterations::<P>(n);
        for v in 0..=3 * n + 2 {
            rep.case();
            rep.nontrivial(hash_of(&("every", n, v)));
            let mut st: State<P> = State::new();
            st.insert(ValU(v));
            st.insert(Iterations(v));
            for (which, c) in [("custom-lens", &c), ("iterations", &ci)] {
                let depth = (v % 3) as usize;
                let r = catch(|| at_depth(&mut st, depth, &mut |s| c.evaluate(&p, s)));
                if !matches!(r, Ok(Ok(b)) if b == (v % n == 0)) {
                    rep.violation(&format!("every-n:{which}:wrong-result:{}", if v % n == 0 { "multiple" } else { "non-multiple" }), json!({"n": n, "value": v, "result": format!("{r:?}")}));
                }
            }
        }
    }
}

// ---- loops: n passes, n+1 tests, progress k/n ---------------------------------------------------
#[derive(Clone)]
struct Counted {
    count: Arc<AtomicU32>,
    inner: Box<dyn Condition<P>>,
}
impl Serialize for Counted {
    fn serialize<S: serde::Serializer>(&self, s: S) -> Result<S::Ok, S::Error> {
        s.serialize_unit_struct("Counted")
    }
}
impl Condition<P> for Counted {
    fn init(&self, p: &P, s: &mut State<P>) -> ExecResult<()> {
        self.inner.init(p, s)
    }
    fn evaluate(&self, p: &P, s: &mut State<P>) -> ExecResult<bool> {
        self.count.fetch_add(1, Ordering::SeqCst);
        self.inner.evaluate(p, s)
    }
}

#[derive(Clone)]
struct Body {
    passes: Arc<Mutex<Vec<(u32, f64)>>>, // (iterations seen, progress seen)
}
impl Serialize for Body {
    fn serialize<S: serde::Serializer>(&self, s: S) -> Result<S::Ok, S::Error> {
        s.serialize_unit_struct("Body")
    }
}
impl Component<P> for Body {
    fn execute(&self, _p: &P, state: &mut State<P>) -> ExecResult<()> {
        let it = state.iterations();
        let pr = state.try_get_value::<Progress<ValueOf<Iterations>>>().unwrap_or(f64::NAN);
        self.passes.lock().unwrap().push((it, pr));
        Ok(())
    }
}

fn loops(rep: &Reporter) {
    let p = problem();
    for n in (0..=12u32).chain([50, 333]) {
        for combined in [false, true] {
            rep.case();
            rep.nontrivial(hash_of(&("loop", n, combined)));
            let count = Arc::new(AtomicU32::new(0));
            let passes = Arc::new(Mutex::new(Vec::new()));
            let inner: Box<dyn Condition<P>> = if combined {
                // as in the examples: iterations(n) & !optimum-reached (never reached here: no best individual)
                LessThanN::iterations(n) & !OptimumReached::new(1e-9).unwrap()
            } else {
                LessThanN::iterations(n)
            };
            let cfg = Configuration::new(Loop::new(Box::new(Counted { count: count.clone(), inner }), vec![Box::new(Body { passes: passes.clone() }) as Box<dyn Component<P>>]));
            let mut st: State<P> = State::new();
            let r = catch(|| cfg.run(&p, &mut st).map_err(|e| e.to_string()));
            let seen = passes.lock().unwrap().clone();
            let tests = count.load(Ordering::SeqCst);
            let its = st.try_get_value::<Iterations>().ok();
            let ok_passes = seen.len() as u32 == n && seen.iter().enumerate().all(|(k, (it, _))| *it == k as u32);
            let ok_progress = seen.iter().enumerate().all(|(k, (_, pr))| pr.to_bits() == (k as f64 / n as f64).to_bits());
            if !matches!(r, Ok(Ok(()))) || !ok_passes || tests != n + 1 || its != Some(n) {
                rep.violation(&format!("loop:wrong-pass-or-test-count:{}", if combined { "iterations-and-not-optimum" } else { "iterations" }), json!({"n": n, "result": format!("{r:?}"), "passes": seen.len(), "condition_tests": tests, "iterations_after": its}));
            } else if !ok_progress {
                rep.violation("loop:progress-sequence-wrong", json!({"n": n, "progress_seen_in_passes": seen.iter().map(|x| x.1).collect::<Vec<_>>()}));
            }
            let final_progress = st.try_get_value::<Progress<ValueOf<Iterations>>>().ok();
            if n > 0 && final_progress.map(f64::to_bits) != Some(1.0f64.to_bits()) {
                rep.violation("loop:final-progress-not-one", json!({"n": n, "progress": final_progress}));
            }
        }
    }
}

/// An iteration-bounded loop whose body runs another iteration-bounded loop inside a scope: the outer
/// loop's progress must still be k/n when observed after the scope (the inner loop has its own).
fn nested_loops(rep: &Reporter) {
    let p = problem();
    for n in 1..=6u32 {
        for m in 0..=4u32 {
            rep.case();
            rep.nontrivial(hash_of(&("nested-loop", n, m)));
            let before = Arc::new(Mutex::new(Vec::new()));
            let inner = Arc::new(Mutex::new(Vec::new()));
            let after = Arc::new(Mutex::new(Vec::new()));
            let body: Vec<Box<dyn Component<P>>> = vec![
                Box::new(Body { passes: before.clone() }),
                mahf::components::Scope::new(vec![Loop::new(LessThanN::iterations(m), vec![Box::new(Body { passes: inner.clone() }) as Box<dyn Component<P>>])]),
                Box::new(Body { passes: after.clone() }),
            ];
            let cfg = Configuration::new(Loop::new(LessThanN::iterations(n), body));
            let mut st: State<P> = State::new();
            let r = catch(|| cfg.run(&p, &mut st).map_err(|e| e.to_string()));
            let (b, i, a) = (before.lock().unwrap().clone(), inner.lock().unwrap().clone(), after.lock().unwrap().clone());
            let want_outer: Vec<(u32, u64)> = (0..n).map(|k| (k, (k as f64 / n as f64).to_bits())).collect();
            let want_inner: Vec<(u32, u64)> = (0..n).flat_map(|_| (0..m).map(move |j| (j, (j as f64 / m as f64).to_bits()))).collect();
            let bits = |v: &Vec<(u32, f64)>| v.iter().map(|x| (x.0, x.1.to_bits())).collect::<Vec<_>>();
            if !matches!(r, Ok(Ok(()))) || bits(&b) != want_outer || bits(&i) != want_inner {
                rep.violation("loop:nested:passes-or-progress-wrong", json!({"outer_n": n, "inner_n": m, "result": format!("{r:?}"), "outer_seen": b, "inner_seen": i}));
            } else if bits(&a) != want_outer {
                rep.violation("loop:nested:outer-progress-or-iterations-disturbed-by-the-inner-scoped-loop", json!({"outer_n": n, "inner_n": m, "seen_after_the_scope": a, "expected": (0..n).map(|k| (k, k as f64 / n as f64)).collect::<Vec<_>>()}));
            }
        }
    }
}

// ---- optimum reached ------------------------------------------------------------------------------
fn optimum(rep: &Reporter) {
    for (f, opt) in [(RealFn::Sphere, 0.0f64), (RealFn::NegSphere, -5.0f64)] {
        let p = Real::new(2, -1.0, 1.0, f);
        for &eps in &[0.0, 1e-9, 0.01, 1.0, 1e6] {
            let c = match OptimumReached::new::<P>(eps) {
                Ok(c) => c,
                Err(e) => {
                    rep.violation("optimum-reached:rejects-valid-epsilon", json!({"epsilon": eps, "error": e.to_string()}));
                    continue;
                }
            };
            // no best individual at all
            rep.case();
            let mut st: State<P> = State::new();
            let r = catch(|| c.evaluate(&p, &mut st));
            if !matches!(r, Ok(Ok(false))) {
                rep.violation("optimum-reached:without-best", json!({"epsilon": eps, "result": format!("{r:?}")}));
            }
            st.insert(BestIndividual::<P>::new());
            let r = catch(|| c.evaluate(&p, &mut st));
            if !matches!(r, Ok(Ok(false))) {
                rep.violation("optimum-reached:with-empty-best", json!({"epsilon": eps, "result": format!("{r:?}")}));
            }
            for &delta in &[-1.0, 0.0, eps / 2.0, eps, eps * (1.0 + 1e-12) + 1e-300, eps + 1e-3, 10.0 * eps + 1.0, f64::INFINITY] {
                rep.case();
                rep.nontrivial(hash_of(&("opt", opt.to_bits(), eps.to_bits(), delta.to_bits())));
                let b = opt + delta;
                let mut st: State<P> = State::new();
                let mut best = BestIndividual::<P>::new();
                best.update(&Individual::new(vec![0.0, 0.0], so(b)));
                st.insert(best);
                let want = b <= opt + eps;
                // the best individual lives in the caller's scope; the condition is asked there and from inside 1-2 scopes
                for depth in 0..3usize {
                    let r = catch(|| at_depth(&mut st, depth, &mut |s| c.evaluate(&p, s)));
                    if !matches!(r, Ok(Ok(x)) if x == want) {
                        let place = if depth == 0 { "" } else { ":inside-a-scope" };
                        rep.violation(&format!("optimum-reached:wrong-result:{}{place}", if want { "within-epsilon" } else { "outside-epsilon" }), json!({"optimum": opt, "epsilon": eps, "best": b, "scopes_between": depth, "result": format!("{r:?}"), "expected": want}));
                    }
                }
            }
        }
        for bad in [-1e-12, -1.0, f64::NEG_INFINITY] {
            rep.case();
            if OptimumReached::new::<P>(bad).is_ok() {
                rep.violation("optimum-reached:accepts-negative-epsilon", json!({"epsilon": bad}));
            }
        }
    }
}

// ---- change-of --------------------------------------------------------------------------------------
/// One step of a change-of history: the observed value becomes `Some(v)` and the condition is asked,
/// or (`None`) the condition is initialised again (a loop does that on every entry): after that it
/// has not reported anything yet.
/// A third kind of step: the observed state is missing when the condition is asked (the lens fails, the
/// condition returns the error) and is put back afterwards with the value it had: nothing was reported, so what the
/// condition remembers is untouched.
#[derive(Clone, Copy, Debug, PartialEq, Eq, Hash, Serialize)]
enum Step {
    Val(u32),
    Init,
    Fail,
}

fn change_of(rep: &Reporter) {
    let p = problem();
    let alphabet: [Step; 6] = [Step::Val(0), Step::Val(1), Step::Val(2), Step::Val(5), Step::Init, Step::Fail];
    let max_len = rep.tier.pick(6usize, 7usize);
    let mut histories = 0u64;
    for len in 1..=max_len {
        for code in 0..alphabet.len().pow(len as u32) {
            let mut c = code;
            let hist: Vec<Step> = (0..len).map(|_| { let v = alphabet[c % 6]; c /= 6; v }).collect();
            if len < max_len && code % 3 != 0 {
                continue; // prefixes of longer histories are covered by them
            }
            histories += 1;
            let depth = code % 3; // the observed values live in the caller's scope, the condition 0-2 scopes further in
            for thr in 0..=5u32 {
                // thr == 0 -> PartialEq checker
                rep.case();
                for target in ["u32", "objective"] {
                    let cond: Box<dyn Condition<P>> = match (thr, target) {
                        (0, "u32") => ChangeOf::new(PartialEqChecker::new(), ValueOf::<ValU>::new()),
                        (0, _) => ChangeOf::new(PartialEqChecker::new(), ValueOf::<ValO>::new()),
                        (t, "u32") => ChangeOf::new(DeltaEqChecker::new(t), ValueOf::<ValU>::new()),
                        (t, _) => ChangeOf::new(DeltaEqChecker::new(so(t as f64)), ValueOf::<ValO>::new()),
                    };
                    let mut st: State<P> = State::new();
                    st.insert(ValU(0));
                    st.insert(ValO(so(0.0)));
                    let verdict = at_depth(&mut st, depth, &mut |st| -> Option<(String, serde_json::Value)> {
                        if let Err(e) = cond.init(&p, st) {
                            return Some(("change-of:init-failed".into(), json!({"error": e.to_string()})));
                        }
                        let mut last: Option<u32> = None;
                        for (k, step) in hist.iter().enumerate() {
                            let v = match *step {
                                Step::Init => {
                                    if let Err(e) = cond.init(&p, st) {
                                        return Some(("change-of:init-failed".into(), json!({"error": e.to_string()})));
                                    }
                                    last = None;
                                    continue;
                                }
                                Step::Fail => {
                                    let (u, o) = (st.get_value::<ValU>(), st.get_value::<ValO>());
                                    let _ = st.remove::<ValU>();
                                    let _ = st.remove::<ValO>();
                                    let r = catch(|| cond.evaluate(&p, st));
                                    st.insert(ValU(u));
                                    st.insert(ValO(o));
                                    if !matches!(r, Ok(Err(_))) {
                                        return Some((format!("change-of:{target}:answers-although-the-observed-state-is-missing"), json!({"history": hist, "step": k, "result": format!("{r:?}")})));
                                    }
                                    continue;
                                }
                                Step::Val(v) => v,
                            };
                            st.set_value::<ValU>(v);
                            st.set_value::<ValO>(so(v as f64));
                            let want = match last {
                                None => true,
                                Some(l) => {
                                    let d = if v > l { v - l } else { l - v };
                                    if thr == 0 {
                                        v != l
                                    } else {
                                        d >= thr
                                    }
                                }
                            };
                            let r = catch(|| cond.evaluate(&p, st));
                            if !matches!(r, Ok(Ok(b)) if b == want) {
                                let checker = if thr == 0 { "partial-eq".to_string() } else { "delta".to_string() };
                                let reinit = hist[..k].contains(&Step::Init);
                                let after_failure = k > 0 && hist[k - 1] == Step::Fail;
                                let kind = if after_failure && !want {
                                    "memory-lost-when-the-lens-failed"
                                } else if want && reinit && last.is_none() {
                                    "no-report-after-being-initialised-again"
                                } else if want {
                                    "missed-change"
                                } else if last == Some(v) {
                                    "fires-without-change"
                                } else {
                                    "fires-below-threshold-or-vs-last-seen"
                                };
                                return Some((
                                    format!("change-of:{checker}:{target}:{kind}"),
                                    json!({"checker": if thr == 0 { "PartialEqChecker".to_string() } else { format!("DeltaEqChecker({thr})") }, "target": target, "history (null = init again)": hist, "scopes_between_value_and_condition": depth, "step": k, "value": v, "last_reported": last, "result": format!("{r:?}"), "expected": want}),
                                ));
                            }
                            if want {
                                last = Some(v);
                            }
                        }
                        None
                    });
                    if let Some((sig, detail)) = verdict {
                        rep.violation(&sig, detail);
                    }
                }
            }
            if code % 5 == 0 {
                rep.nontrivial(hash_of(&("changeof", &hist)));
            }
        }
    }
    rep.count("change_of_histories", histories);
}

/// Two change-of conditions living in the same state, watching *different* values: each one answers
/// relative to what *it* reported last, whatever the other one has seen. `same_target` chooses whether the
/// two observed values have the same Rust type (u32 / u32) or different ones (u32 / objective).
fn change_of_pairs(rep: &Reporter) {
    let p = problem();
    let mut rng = SplitMix64::new(rep.seed).fork(0xC10_5);
    let mut n = 0u64;
    for k in 0..rep.tier.pick(4_000u32, 400_000u32) {
        let same_target = k % 2 == 0;
        let a: Box<dyn Condition<P>> = ChangeOf::new(PartialEqChecker::new(), ValueOf::<ValU>::new());
        let b: Box<dyn Condition<P>> = if same_target { ChangeOf::new(PartialEqChecker::new(), ValueOf::<ValW>::new()) } else { ChangeOf::new(PartialEqChecker::new(), ValueOf::<ValO>::new()) };
        let mut st: State<P> = State::new();
        st.insert(ValU(0));
        st.insert(ValW(0));
        st.insert(ValO(so(0.0)));
        if a.init(&p, &mut st).is_err() || b.init(&p, &mut st).is_err() {
            rep.violation("change-of:init-failed", json!({"pair": true}));
            continue;
        }
        rep.case();
        n += 1;
        rep.nontrivial(hash_of(&("changeof-pair", k)));
        let mut last: [Option<u32>; 2] = [None, None];
        let mut trace = Vec::new();
        for step in 0..(2 + rng.usize(10)) {
            let who = rng.usize(2);
            let v = rng.below(3) as u32;
            trace.push((who, v));
            if who == 0 {
                st.set_value::<ValU>(v);
            } else {
                st.set_value::<ValW>(v);
                st.set_value::<ValO>(so(v as f64));
            }
            let want = last[who] != Some(v);
            let r = catch(|| if who == 0 { a.evaluate(&p, &mut st) } else { b.evaluate(&p, &mut st) });
            if !matches!(r, Ok(Ok(x)) if x == want) {
                let kind = if same_target { "values-of-the-same-type" } else { "values-of-different-types" };
                rep.violation(
                    &format!("change-of:two-conditions-on-different-values:{kind}:answer-depends-on-the-other-condition"),
                    json!({"steps (condition, value)": trace, "step": step, "asked": who, "value": v, "last_reported_by_that_condition": last[who], "last_reported_by_the_other": last[1 - who], "result": format!("{r:?}"), "expected": want}),
                );
                break;
            }
            if want {
                last[who] = Some(v);
            }
        }
    }
    rep.count("change_of_pair_histories", n);
}

#[derive(Clone)]
struct Hit {
    count: Arc<Mutex<u32>>,
}
impl Serialize for Hit {
    fn serialize<S: serde::Serializer>(&self, s: S) -> Result<S::Ok, S::Error> {
        s.serialize_unit_struct("Hit")
    }
}
impl Component<P> for Hit {
    fn execute(&self, _p: &P, _state: &mut State<P>) -> ExecResult<()> {
        *self.count.lock().unwrap() += 1;
        Ok(())
    }
}

// ---- random chance ------------------------------------------------------------------------------------
fn random_chance(rep: &Reporter) {
    let p = problem();
    let n = rep.tier.pick(40_000u32, 2_000_000u32);
    let eps = ((2.0f64 / 1e-10).ln() / (2.0 * n as f64)).sqrt();
    for &pr in &[0.0f64, 0.1, 0.5, 0.9, 1.0] {
        for seed in 0..rep.tier.pick(2u64, 16u64) {
            rep.case();
            rep.nontrivial(hash_of(&("chance", pr.to_bits(), seed)));
            let c = RandomChance::new::<P>(pr);
            let mut st: State<P> = State::new();
            st.insert(mahf::state::Random::new(rep.seed ^ (seed * 7919)));
            let mut hits = 0u32;
            let mut failed = None;
            for _ in 0..n {
                match catch(|| c.evaluate(&p, &mut st)) {
                    Ok(Ok(true)) => hits += 1,
                    Ok(Ok(false)) => {}
                    other => {
                        failed = Some(format!("{other:?}"));
                        break;
                    }
                }
            }
            let freq = hits as f64 / n as f64;
            let ok = failed.is_none() && if pr == 0.0 { hits == 0 } else if pr == 1.0 { hits == n } else { (freq - pr).abs() <= eps };
            if !ok {
                rep.violation(&format!("random-chance:frequency-outside-band:p={pr}"), json!({"p": pr, "draws": n, "hits": hits, "frequency": freq, "band": eps, "failure": failed}));
            }
        }
    }
    // the condition inside a scope that is entered anew in every pass of a loop: every entry draws from the run's
    // generator, so the firings still have the configured frequency
    {
        use mahf::components::{Branch, Scope};
        let n2 = rep.tier.pick(20_000u32, 400_000u32);
        let eps2 = ((2.0f64 / 1e-10).ln() / (2.0 * n2 as f64)).sqrt();
        for &pr in &[0.1f64, 0.5, 0.9] {
            for seed in 0..rep.tier.pick(2u64, 8u64) {
                rep.case();
                rep.nontrivial(hash_of(&("chance-in-scope", pr.to_bits(), seed)));
                let count = Arc::new(Mutex::new(0u32));
                let body = Hit { count: count.clone() };
                let cfg = Configuration::<P>::new(Loop::new(LessThanN::iterations(n2), vec![Scope::new(vec![Branch::new(RandomChance::new::<P>(pr), vec![Box::new(body) as Box<dyn Component<P>>])])]));
                let mut st: State<P> = State::new();
                st.insert(mahf::state::Random::new(rep.seed ^ (seed * 104729)));
                let r = catch(|| cfg.run(&p, &mut st).map_err(|e| e.to_string()));
                let hits = *count.lock().unwrap();
                let freq = hits as f64 / n2 as f64;
                if !matches!(r, Ok(Ok(()))) || (freq - pr).abs() > eps2 {
                    rep.violation(&format!("random-chance:inside-a-scope-entered-in-every-pass:frequency-outside-band:p={pr}"), json!({"p": pr, "scope_entries": n2, "hits": hits, "frequency": freq, "band": eps2, "result": format!("{r:?}")}));
                }
            }
        }
    }
    rep.set("random_chance_draws_per_p", json!(n));
    rep.set("random_chance_hoeffding_band", json!(eps));
}

// ---- and / or / not ------------------------------------------------------------------------------------
#[derive(Clone, Debug, PartialEq, Eq, Hash)]
enum F {
    Leaf(usize),
    Not(Box<F>),
    And(Vec<F>),
    Or(Vec<F>),
}

#[derive(Clone)]
struct Operand {
    ix: usize,
    shared: Arc<Mutex<([bool; 3], [u32; 3], [u32; 3])>>, // values, evaluation counts, init counts
}
impl Serialize for Operand {
    fn serialize<S: serde::Serializer>(&self, s: S) -> Result<S::Ok, S::Error> {
        s.serialize_unit_struct("Operand")
    }
}
impl Condition<P> for Operand {
    fn init(&self, _p: &P, _s: &mut State<P>) -> ExecResult<()> {
        self.shared.lock().unwrap().2[self.ix] += 1;
        Ok(())
    }
    fn evaluate(&self, _p: &P, _s: &mut State<P>) -> ExecResult<bool> {
        let mut g = self.shared.lock().unwrap();
        g.1[self.ix] += 1;
        Ok(g.0[self.ix])
    }
}

fn build(f: &F, sh: &Arc<Mutex<([bool; 3], [u32; 3], [u32; 3])>>, ops: bool) -> Box<dyn Condition<P>> {
    match f {
        F::Leaf(i) => Box::new(Operand { ix: *i, shared: sh.clone() }),
        F::Not(g) => {
            if ops {
                !build(g, sh, ops)
            } else {
                Not::new(build(g, sh, ops))
            }
        }
        F::And(v) => {
            if ops && v.len() == 2 {
                build(&v[0], sh, ops) & build(&v[1], sh, ops)
            } else {
                And::new(v.iter().map(|g| build(g, sh, ops)).collect::<Vec<_>>())
            }
        }
        F::Or(v) => {
            if ops && v.len() == 2 {
                build(&v[0], sh, ops) | build(&v[1], sh, ops)
            } else {
                Or::new(v.iter().map(|g| build(g, sh, ops)).collect::<Vec<_>>())
            }
        }
    }
}

fn eval(f: &F, a: &[bool; 3]) -> bool {
    match f {
        F::Leaf(i) => a[*i],
        F::Not(g) => !eval(g, a),
        F::And(v) => v.iter().all(|g| eval(g, a)),
        F::Or(v) => v.iter().any(|g| eval(g, a)),
    }
}
fn occurrences(f: &F, out: &mut [u32; 3]) {
    match f {
        F::Leaf(i) => out[*i] += 1,
        F::Not(g) => occurrences(g, out),
        F::And(v) | F::Or(v) => v.iter().for_each(|g| occurrences(g, out)),
    }
}

fn logical(rep: &Reporter) {
    let p = problem();
    let f0: Vec<F> = (0..3).map(F::Leaf).collect();
    let grow = |prev: &Vec<F>| -> Vec<F> {
        let mut out = prev.clone();
        for f in prev {
            out.push(F::Not(Box::new(f.clone())));
        }
        for f in prev {
            for g in prev {
                out.push(F::And(vec![f.clone(), g.clone()]));
                out.push(F::Or(vec![f.clone(), g.clone()]));
            }
        }
        out.push(F::And(f0.clone()));
        out.push(F::Or(f0.clone()));
        out.push(F::And(vec![]));
        out.push(F::Or(vec![]));
        out
    };
    let f1 = grow(&f0);
    let f2 = grow(&f1);
    let mut formulas = f2.clone();
    // depth 3: sampled combinations of depth-2 formulas
    let mut rng = SplitMix64::new(rep.seed).fork(0xC10_3);
    for _ in 0..rep.tier.pick(3_000, 2_000_000) {
        let a = rng.pick(&f2).clone();
        let b = rng.pick(&f2).clone();
        formulas.push(match rng.below(3) {
            0 => F::Not(Box::new(a)),
            1 => F::And(vec![a, b]),
            _ => F::Or(vec![a, b]),
        });
    }
    rep.count("boolean_formulas", formulas.len() as u64);
    for (fi, f) in formulas.iter().enumerate() {
        let mut occ = [0u32; 3];
        occurrences(f, &mut occ);
        for ops in [false, true] {
            let sh = Arc::new(Mutex::new(([false; 3], [0u32; 3], [0u32; 3])));
            let c = build(f, &sh, ops);
            let mut st: State<P> = State::new();
            let _ = c.init(&p, &mut st);
            if sh.lock().unwrap().2 != occ {
                rep.violation("logical:init-does-not-reach-every-operand-once", json!({"formula": format!("{f:?}"), "init_calls": sh.lock().unwrap().2, "occurrences": occ}));
            }
            for code in 0..8u32 {
                let a = [code & 1 != 0, code & 2 != 0, code & 4 != 0];
                {
                    let mut g = sh.lock().unwrap();
                    g.0 = a;
                    g.1 = [0; 3];
                }
                rep.case();
                let r = catch(|| c.evaluate(&p, &mut st));
                let counts = sh.lock().unwrap().1;
                let want = eval(f, &a);
                if fi % 4 == 0 {
                    rep.nontrivial(hash_of(&(fi, code, ops)));
                }
                let top = match f {
                    F::Leaf(_) => "leaf",
                    F::Not(_) => "not",
                    F::And(_) => "and",
                    F::Or(_) => "or",
                };
                match r {
                    Ok(Ok(b)) => {
                        if b != want {
                            rep.violation(&format!("logical:wrong-result:top-{top}"), json!({"formula": format!("{f:?}"), "built_with_operators": ops, "assignment": a, "result": b, "expected": want}));
                        }
                        if counts != occ {
                            rep.violation(&format!("logical:operand-not-evaluated-exactly-once:top-{top}"), json!({"formula": format!("{f:?}"), "built_with_operators": ops, "assignment": a, "evaluations_per_operand": counts, "occurrences_per_operand": occ}));
                        }
                    }
                    other => rep.violation("logical:evaluation-failed", json!({"formula": format!("{f:?}"), "result": format!("{other:?}")})),
                }
            }
        }
    }
    rep.sample(json!({"formula": format!("{:?}", formulas[formulas.len() / 3]), "assignments": "all 8", "built": "with And/Or/Not::new and with the & | ! operators"}));
}

fn main() {
    let rep = Reporter::from_args("C10");
    rep.rule("prepared states x conditions: LessThanN (custom u32/f64 lens, iterations, evaluations) for n in {1,2,3,7,10,1000} x values 0..n+2, boundary and random values incl. the Progress state written; EveryN for n in {1,2,3,7,10} x values 0..3n+2; real Loops with a counting body and a counting condition wrapper for n in 0..12, 50, 333 (passes, tests, iteration counter, progress sequence k/n); OptimumReached over epsilon x distance grid with/without a best individual; ChangeOf with PartialEqChecker and DeltaEqChecker(1..5) on u32 and SingleObjective targets over all histories up to the stated length over {0,1,2,5, initialise-again, asked-while-the-observed-state-is-missing} vs a last-reported model (a fresh initialisation forgets what was reported), the condition living 0-2 scopes further in than the value it observes; pairs of ChangeOf conditions on different values of the same / of different Rust types in one state (each answers relative to its own last report); LessThanN / EveryN / OptimumReached also asked from inside 1-2 scopes opened over the state they observe; RandomChance frequencies vs a Hoeffding band (delta=1e-10), asked directly and inside a scope that is entered anew in every pass of a loop; all Boolean formulas up to depth 2 (sampled depth 3) over three counting operands x all 8 assignments, built with constructors and with the & | ! operators. distinct_nontrivial = distinct (condition, parameter, value/history/assignment) cells");
    rep.assume("RandomChance band: |freq - p| <= sqrt(ln(2/1e-10)/(2N)); exact for p in {0,1}");
    less_than_n(&rep);
    loops(&rep);
    nested_loops(&rep);
    optimum(&rep);
    change_of(&rep);
    change_of_pairs(&rep);
    random_chance(&rep);
    logical(&rep);
    let _ = Populations::<P>::new;
    rep.exhaustive(true);
    rep.finish();
}
