//! C02 under Miri: the tuple set of the tier, random borrow sessions, sampled holding nestings.
//! A broken distinctness check shows up as an aliasing error even where nothing visibly breaks.
use mv::{
    c02::{self, random_hold_case, run_hold_case, run_session, session_alphabet_full, Cx, SOp, SessionStats},
    SplitMix64,
};

fn main() {
    let mut seed = 1u64;
    let mut tier = "quick".to_string();
    let (mut shard, mut shards) = (0u64, 0u64);
    let mut it = std::env::args().skip(1);
    while let Some(a) = it.next() {
        match a.as_str() {
            "--seed" => seed = it.next().and_then(|s| s.parse::<i64>().ok()).unwrap_or(1) as u64,
            "--tier" => tier = it.next().unwrap_or_default(),
            "--shard" => shard = it.next().and_then(|s| s.parse().ok()).unwrap_or(0),
            "--shards" => shards = it.next().and_then(|s| s.parse().ok()).unwrap_or(0),
            "--warmup" => return,
            _ => {}
        }
    }
    let thorough = tier == "thorough";
    let mut bad = 0u64;

    let mut cx = Cx { lean: true, shard: (shard, shards), ..Cx::default() };
    let t0 = std::time::Instant::now();
    c02::gen_quick::tuples_quick(&mut cx);
    #[cfg(feature = "thorough_tuples")]
    if thorough {
        c02::gen_thorough::tuples_thorough(&mut cx);
    }
    for (sig, msg) in &cx.violations {
        println!("MONITOR-VIOLATION {sig}: {msg}");
        bad += 1;
    }

    eprintln!("tuples done {:?}", t0.elapsed());
    let alpha = session_alphabet_full();
    let mut rng = SplitMix64::new(seed).fork(0xC02_3141 + shard);
    let mut stats = SessionStats::default();
    let n_sessions = if thorough { 60 } else { 8 };
    for _ in 0..n_sessions {
        let layout = rng.below(4) as u8;
        let ops: Vec<SOp> = (0..12).map(|_| *rng.pick(&alpha)).collect();
        if let Err((sig, msg, at)) = run_session(layout, &ops, &mut stats) {
            println!("MONITOR-VIOLATION {sig}: {msg} (op {at})");
            bad += 1;
        }
    }

    eprintln!("sessions done {:?}", t0.elapsed());
    let n_hold = if thorough { 200 } else { 25 };
    let mut held = 0u64;
    for _ in 0..n_hold {
        let c = &random_hold_case(&mut rng);
        held += 1;
        for (sig, msg) in run_hold_case(c) {
            println!("MONITOR-VIOLATION {sig}: {msg}");
            bad += 1;
        }
    }
    println!(
        "MIRI-SUMMARY {{\"tuple_types\": {}, \"multi_borrow_calls\": {}, \"multi_borrow_granted\": {}, \"sessions\": {}, \"session_guards_granted\": {}, \"holding_cases\": {}}}",
        cx.tuples_run, cx.calls, cx.granted, n_sessions, stats.granted, held
    );
    if bad > 0 {
        std::process::exit(1);
    }
}
