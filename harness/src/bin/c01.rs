//! C01 — state registry = stack of typed maps (history + model, full-state sweep after each op).
use mv::{
    c01model::{alphabet, full_alphabet, op_name, run_history, Op},
    hash_of, num_workers,
    report::Local,
    Reporter, SplitMix64,
};
use serde_json::json;

fn exhaustive(rep: &Reporter, len: usize) {
    let alpha = alphabet(2);
    let a = alpha.len();
    let total = a.pow(len as u32);
    std::thread::scope(|s| {
        for range in mv::shards(total, num_workers()) {
            let alpha = &alpha;
            s.spawn(move || {
                let mut local = Local::new();
                let mut ops = vec![alpha[0]; len];
                for idx in range {
                    let mut x = idx;
                    for slot in ops.iter_mut() {
                        *slot = alpha[x % a];
                        x /= a;
                    }
                    local.case();
                    match run_history(&ops, 2, 4) {
                        Ok(st) => {
                            if st.ops_under_shadowing > 0 {
                                local.nontrivial(st.final_model_hash ^ hash_of(&ops[len - 1]));
                                local.count("histories_with_shadowing", 1);
                            }
                            local.count("removals_under_a_shadow", st.removal_under_shadow);
                            local.count("pops_re_exposing_shadowed_state", st.pop_with_shadow);
                        }
                        Err((sig, msg, at)) => {
                            rep.violation(&sig, json!({"kind": "exhaustive-history", "types": 2, "ops": format!("{:?}", &ops[..=at]), "failed_at": at, "observed": msg}));
                        }
                    }
                }
                rep.merge(local);
            });
        }
    });
    rep.count("exhaustive_histories", total as u64);
    rep.set("exhaustive_alphabet", json!(alpha.iter().map(|o| format!("{o:?}")).collect::<Vec<_>>()));
}

fn random(rep: &Reporter, n_hist: usize, len: usize) {
    let alpha = full_alphabet(5);
    std::thread::scope(|s| {
        for (w, range) in mv::shards(n_hist, num_workers()).into_iter().enumerate() {
            let alpha = &alpha;
            s.spawn(move || {
                let mut rng = SplitMix64::new(rep.seed).fork(0xC01 + w as u64);
                let mut local = Local::new();
                for _ in range {
                    let ntypes = 3 + rng.below(3) as u8;
                    let push_bias = rng.f64_in(0.02, 0.15);
                    let ops: Vec<Op> = (0..len)
                        .map(|_| {
                            if rng.chance(push_bias) {
                                Op::Push
                            } else {
                                loop {
                                    let op = *rng.pick(alpha);
                                    let t = match op {
                                        Op::Insert(t) | Op::Remove(t) | Op::Take(t) | Op::SetValue(t) | Op::GetMut(t) | Op::BorrowValueMut(t)
                                        | Op::EntryOrInsert(t) | Op::EntryOrInsertWith(t) | Op::EntryAndModify(t) | Op::EntryAndModifyValue(t)
                                        | Op::EntryOccInsert(t) | Op::EntryOccRemove(t) | Op::EntryOccGetMut(t) | Op::ParentInsert(t) | Op::WithInner(t, _) | Op::GuardedWrite(t) => t,
                                        _ => 0,
                                    };
                                    if t < ntypes {
                                        break op;
                                    }
                                }
                            }
                        })
                        .collect();
                    local.case();
                    match run_history(&ops, ntypes, 6) {
                        Ok(st) => {
                            local.nontrivial(hash_of(&ops));
                            local.count("random_ops_under_shadowing", st.ops_under_shadowing);
                            local.count("removals_under_a_shadow", st.removal_under_shadow);
                            local.count("pops_re_exposing_shadowed_state", st.pop_with_shadow);
                        }
                        Err((sig, msg, at)) => {
                            let from = at.saturating_sub(15);
                            rep.violation(&sig, json!({"kind": "random-history", "types": ntypes, "last_ops": format!("{:?}", &ops[from..=at]), "failed_at": at, "observed": msg}));
                        }
                    }
                }
                rep.merge(local);
            });
        }
    });
    rep.count("random_histories", n_hist as u64);
    rep.set("random_history_length", json!(len));
}

fn main() {
    let rep = Reporter::from_args("C01");
    rep.fold_aux();
    rep.rule("every history over 32 registry operations (write attempts under a live shared guard, holding (take out, write, put back; the shadowed instance is what the rest sees meanwhile), try_get_multiple_mut over two types, insert, remove, set_value, get_mut, try_borrow_value_mut, entry or_insert / and_modify_value / occupied insert+remove, parent_mut().insert, into_child, into_parent, with_inner_state ok/failing) on 2 state types (one borrowing harness memory, lifetime 'a), depth<=4, up to the stated length, executed on a real State and compared with a Vec<BTreeMap> model; after EVERY operation a full sweep compares every type in every scope plus all read accessors (contains, contains_at_top, find, try_borrow, borrow, try_get_value, get_value, try_borrow_value, borrow_value, require). Plus seeded random histories over 34 operations, 3-5 types, depth<=6. distinct_nontrivial = distinct (final model state, last op) of exhaustive histories that operated under shadowing + distinct random histories");
    rep.assume("unique values per write make every read identify the write it observed");
    let len = rep.tier.pick(4usize, 5usize);
    rep.set("exhaustive_history_length", json!(len));
    rep.sample(json!({"history": format!("{:?}", [Op::Insert(0), Op::Push, Op::Insert(0), Op::EntryOccRemove(0), Op::SetValue(0), Op::Pop]), "meaning": "shadow type 0 in a child scope, remove the shadow through entry(), write the re-exposed outer value, pop"}));
    let _ = op_name;
    exhaustive(&rep, len);
    let (n, l) = rep.tier.pick((1024, 4_000), (4096, 20_000));
    random(&rep, n, l);
    rep.exhaustive(true);
    rep.finish();
}
