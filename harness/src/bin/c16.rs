//! C16 — every shipped template runs to completion, makes exactly n passes and keeps the stack balanced.
use std::sync::Mutex;

use mahf::{problems::KnownOptimumProblem, verif::StepEvent, Configuration};
use mv::{
    hash_of, num_workers,
    observe::{run_observed, scope_depth, stack_height, top_len},
    problems::Instrumented,
    templates::{self, Case, CaseMeta, PopBound, TemplateVisitor},
    Reporter,
};
use serde_json::json;

#[derive(Default)]
struct Rec {
    /// (loop id, scope depth) stack of currently running passes with (height, top_len) at start
    open: Vec<(usize, usize, Option<usize>, Option<usize>)>,
    /// passes completed of the outermost (first seen) loop at root scope
    outer_loop: Option<usize>,
    outer_passes: u32,
    total_passes: u64,
    max_height: usize,
    unbalanced: Vec<String>,
    pop_violations: Vec<String>,
    last_child: String,
    children: u64,
    prev_top_at_pass_end: Option<usize>,
}

struct V<'r> {
    rep: &'r Reporter,
    pool: &'r rayon::ThreadPool,
}

impl<'r> TemplateVisitor for V<'r> {
    fn visit<P>(&mut self, meta: &CaseMeta, cfg: Configuration<P>, problem: &P)
    where
        P: Instrumented + KnownOptimumProblem,
    {
        let rep = self.rep;
        let rec = Mutex::new(Rec::default());
        let pop = meta.pop;
        let result = run_observed(&cfg, problem, meta.seed, meta.parallel, Some(self.pool), |ev, _p, state| {
            let mut r = rec.lock().unwrap();
            match ev {
                StepEvent::BlockChild { before, component, .. } => {
                    if before {
                        r.last_child = mv::sniff::name_of(component);
                        r.children += 1;
                    }
                    if let Some(h) = stack_height(state) {
                        r.max_height = r.max_height.max(h);
                    }
                }
                StepEvent::LoopPass { start, looop } => {
                    let depth = scope_depth(state);
                    let h = stack_height(state);
                    let t = top_len(state);
                    if start {
                        if r.outer_loop.is_none() && depth == 1 {
                            r.outer_loop = Some(looop);
                        }
                        r.open.push((looop, depth, h, t));
                    } else {
                        r.total_passes += 1;
                        if let Some((l, d, h0, _t0)) = r.open.pop() {
                            if l != looop || d != depth {
                                r.unbalanced.push(format!("pass end of loop {looop:#x} does not match the open pass {l:#x}"));
                            } else if h0 != h {
                                r.unbalanced.push(format!("loop pass started with stack height {h0:?} and ended with {h:?} (scope depth {depth})"));
                            }
                        }
                        if Some(looop) == r.outer_loop && depth == 1 {
                            r.outer_passes += 1;
                            // population size at the end of a pass of the main loop
                            if let Some(t) = t {
                                let ok = match pop {
                                    PopBound::Exactly(k) => t == k,
                                    PopBound::AtMost(k) => t <= k && t >= 1,
                                    PopBound::Cro => t >= 1 && r.prev_top_at_pass_end.map(|p| (p as i64 - t as i64).abs() <= 1).unwrap_or(true),
                                };
                                if !ok {
                                    let prev = r.prev_top_at_pass_end;
                                    let pass = r.outer_passes;
                                    r.pop_violations.push(format!("population size {t} at the end of pass {pass} (previous {prev:?}) violates {pop:?}"));
                                }
                                r.prev_top_at_pass_end = Some(t);
                            }
                        }
                    }
                }
            }
        });
        rep.case();
        rep.nontrivial(hash_of(&(meta.tmpl, &meta.params, &meta.instance, meta.n, meta.seed, meta.exact_iters, meta.parallel)));
        let r = rec.lock().unwrap();
        rep.count("loop_passes_observed", r.total_passes);
        rep.count("block_children_observed", r.children);
        rep.distinct("templates", hash_of(&meta.tmpl));
        rep.distinct("template_param_sets", hash_of(&(meta.tmpl, &meta.params)));
        let tname = format!("{:?}", meta.tmpl);
        let case = || json!({"meta": meta, "last_component_started": r.last_child, "outer_passes": r.outer_passes, "max_stack_height": r.max_height});
        match &result {
            Err(panic) => {
                let loc = panic.rsplit(" @ ").next().unwrap_or("").to_string();
                rep.violation(&format!("{tname}:panic:in-{}:{}", r.last_child, short(&loc)), json!({"case": case(), "panic": panic}));
                return;
            }
            Ok(Err(e)) => {
                rep.violation(&format!("{tname}:error:in-{}", r.last_child), json!({"case": case(), "error": e}));
                return;
            }
            Ok(Ok(state)) => {
                let iters = state.iterations();
                let h = stack_height(state);
                if meta.exact_iters {
                    if r.outer_passes != meta.n || iters != meta.n {
                        rep.violation(&format!("{tname}:wrong-number-of-iterations"), json!({"case": case(), "requested": meta.n, "passes_observed": r.outer_passes, "iterations_reported": iters}));
                    }
                } else if r.outer_passes > meta.n || iters != r.outer_passes {
                    rep.violation(&format!("{tname}:wrong-number-of-iterations"), json!({"case": case(), "requested_at_most": meta.n, "passes_observed": r.outer_passes, "iterations_reported": iters}));
                } else if r.outer_passes < meta.n {
                    // `iterations(n) & !OptimumReached(1e-3)`: fewer passes only because the best value is within 1e-3 of the known optimum
                    let best = state.best_objective_value().map(|o| o.value());
                    let opt = problem.known_optimum().value();
                    if !best.map(|b| b <= opt + 1e-3).unwrap_or(false) {
                        rep.violation(&format!("{tname}:stopped-early-without-having-reached-the-optimum"), json!({"case": case(), "requested": meta.n, "passes_observed": r.outer_passes, "best": best, "known_optimum": opt, "epsilon": 1e-3}));
                    }
                }
                if h != Some(1) {
                    rep.violation(&format!("{tname}:final-stack-height"), json!({"case": case(), "final_height": h}));
                }
                // (the ACO templates start from an empty population, which the first pass fills)
                let aco_unstarted = matches!(meta.tmpl, templates::Tmpl::AntSystem | templates::Tmpl::Mmas) && r.outer_passes == 0;
                if let (Some(t), false) = (top_len(state), aco_unstarted) {
                    let ok = match pop {
                        PopBound::Exactly(k) => t == k,
                        PopBound::AtMost(k) => t <= k && t >= 1,
                        PopBound::Cro => t >= 1,
                    };
                    if !ok {
                        rep.violation(&format!("{tname}:population-size"), json!({"case": case(), "final_population_size": t, "bound": format!("{pop:?}")}));
                    }
                }
            }
        }
        if let Some(u) = r.unbalanced.first() {
            rep.violation(&format!("{tname}:stack-unbalanced-over-a-pass"), json!({"case": case(), "observed": u}));
        }
        if let Some(u) = r.pop_violations.first() {
            rep.violation(&format!("{tname}:population-size"), json!({"case": case(), "observed": u}));
        }
        if rep.want_sample() && meta.n > 1 {
            rep.sample(json!({"meta": meta, "outer_passes": r.outer_passes, "children_executed": r.children, "max_stack_height": r.max_height}));
        }
    }
}

fn short(loc: &str) -> String {
    loc.rsplit('/').next().unwrap_or(loc).to_string()
}

fn main() {
    let rep = Reporter::from_args("C16");
    rep.rule("all 21 template constructors (plus two assemblies of the generic ga::ga / es::es loops with other shipped selection / crossover / mutation / repair / archive / replacement components) x every parameter set of the catalogue (boundary-valid values included) x instances x n in {0,1,5,25|40} x seeds; each run observed through the step-observer hook (loop-pass start/end with stack height and population size); distinct_nontrivial = distinct (template, parameters, instance, n, seed, condition kind, evaluator) runs");
    rep.assume("valid parameters are those fixed in harness/src/templates.rs (DESIGN.md C16); harness problems only");
    let seeds = rep.tier.pick(30usize, 6000usize);
    let cases = templates::cases(rep.quick(), rep.seed, seeds);
    let n = cases.len();
    let workers = num_workers();
    std::thread::scope(|s| {
        for range in mv::shards(n, workers) {
            let cases = &cases;
            let rep = &rep;
            s.spawn(move || {
                let pool = rayon::ThreadPoolBuilder::new().num_threads(2).build().unwrap();
                let mut v = V { rep, pool: &pool };
                for i in range {
                    let c: &Case = &cases[i];
                    templates::dispatch(c, &mut v, &mut |meta, e| {
                        rep.case();
                        rep.violation(&format!("{:?}:constructor-rejects-valid-parameters", meta.tmpl), json!({"meta": meta, "error": e}));
                    });
                }
            });
        }
    });
    // a second run on the state a first run left behind performs its own requested number of passes
    {
        let mut rng = mv::SplitMix64::new(rep.seed).fork(0xC16_7);
        for k in 0..rep.tier.pick(300usize, 10_000usize) {
            let o = mv::warm::warm_restart(&mut rng, k);
            rep.case();
            rep.nontrivial(hash_of(&("warm-restart", k)));
            if let Some(e) = &o.failed {
                rep.violation("second-run-on-a-reused-state:run-failed", json!({"heuristic": o.variant, "seed": o.seed, "error": e}));
                continue;
            }
            rep.count("second_runs_on_a_reused_state", 1);
            if o.second_run_passes != o.second_run_requested_passes || o.second_run_iterations != o.second_run_requested_passes {
                rep.violation(
                    "second-run-on-a-reused-state:wrong-number-of-passes",
                    json!({"heuristic": o.variant, "seed": o.seed, "requested": o.second_run_requested_passes, "passes_observed_at_the_hook": o.second_run_passes, "iteration_counter_afterwards": o.second_run_iterations}),
                );
            }
        }
    }
    if rep.distinct_len("templates") < 21 {
        rep.inconclusive("not all 21 templates were exercised");
    }
    if rep.counter("loop_passes_observed") == 0 {
        rep.inconclusive("hook never reached: no loop pass observed");
    }
    rep.finish();
}
