//! C09 — objective values are never NaN / -inf and are ordered soundly (value grid, pairs, triples, operators).
use std::cmp::Ordering;

use mahf::{MultiObjective, SingleObjective};
use mv::{catch, hash_of, Reporter, SplitMix64};
use serde_json::json;

fn grid(rng: &mut SplitMix64, extra: usize) -> Vec<f64> {
    let mut g = vec![
        0.0,
        -0.0,
        f64::MIN_POSITIVE,
        -f64::MIN_POSITIVE,
        5e-324,
        -5e-324,
        1e-310,
        -1e-310,
        1.0,
        -1.0,
        1.0 + f64::EPSILON,
        1.0 - f64::EPSILON / 2.0,
        2.0,
        -2.0,
        0.5,
        1e10,
        -1e10,
        1e300,
        -1e300,
        f64::MAX,
        -f64::MAX,
        f64::MAX / 2.0,
        -f64::MAX / 2.0,
        f64::INFINITY,
        f64::NEG_INFINITY,
        f64::NAN,
        -f64::NAN,
        f64::from_bits(0x7ff0000000000001), // signalling NaN
        f64::from_bits(0xfff0000000000001),
        f64::from_bits(0x7ff8000000000abc), // NaN with payload
        f64::from_bits(0x7fffffffffffffff),
        3.0,
        7.25,
        -7.25,
    ];
    for _ in 0..extra {
        g.push(f64::from_bits(rng.next_u64()));
    }
    g
}

fn legal(x: f64) -> bool {
    !x.is_nan() && x != f64::NEG_INFINITY
}

fn class(x: f64) -> &'static str {
    if x.is_nan() {
        "NaN"
    } else if x == f64::INFINITY {
        "+inf"
    } else if x == f64::NEG_INFINITY {
        "-inf"
    } else if x == 0.0 {
        "zero"
    } else if x > 0.0 {
        "pos"
    } else {
        "neg"
    }
}

fn check_result(rep: &Reporter, op: &str, a: f64, b: Option<f64>, b_is_scalar: bool, r: Result<f64, String>) {
    rep.case();
    let bc = b.map(class).unwrap_or("-");
    rep.distinct("operator_operand_classes", hash_of(&(op, class(a), bc)));
    match r {
        Ok(v) if legal(v) => {
            rep.distinct("operator_operand_result_classes", hash_of(&(op, class(a), bc, class(v))));
        }
        Ok(v) => {
            // the illegal value is now inside a SingleObjective obtained through the public API
            let sig = format!("arith:{op}:{}{}->{}", class(a), b.map(|b| format!(":{}{}", if b_is_scalar { "scalar-" } else { "" }, class(b))).unwrap_or_default(), class(v));
            rep.violation(&sig, json!({"operator": op, "lhs": format!("{a:e}"), "rhs": b.map(|b| format!("{b:e}")), "rhs_is_plain_scalar": b_is_scalar, "result": format!("{v:e}"), "note": "the result is a SingleObjective holding an illegal value; comparing it with cmp()/sort() panics when it is NaN"}));
        }
        Err(p) => {
            let sig = format!("arith:{op}:{}{}->panic", class(a), b.map(|b| format!(":{}", class(b))).unwrap_or_default());
            rep.violation(&sig, json!({"operator": op, "lhs": format!("{a:e}"), "rhs": b.map(|b| format!("{b:e}")), "panic": p}));
        }
    }
}

fn single(rep: &Reporter, g: &[f64]) {
    let mut vals: Vec<SingleObjective> = Vec::new();
    for &x in g {
        rep.case();
        let r = SingleObjective::try_from(x);
        match (r, legal(x)) {
            (Ok(o), true) => {
                if o.value().to_bits() != x.to_bits() {
                    rep.violation("single:construction-changes-the-value", json!({"input_bits": format!("{:016x}", x.to_bits()), "stored_bits": format!("{:016x}", o.value().to_bits())}));
                }
                if o.is_finite() != x.is_finite() || f64::from(o).to_bits() != x.to_bits() {
                    rep.violation("single:accessors-disagree", json!({"input": format!("{x:e}")}));
                }
                vals.push(o);
            }
            (Err(_), false) => {}
            (Ok(_), false) => rep.violation(&format!("single:accepts-{}", class(x)), json!({"input_bits": format!("{:016x}", x.to_bits())})),
            (Err(e), true) => rep.violation("single:rejects-legal-value", json!({"input": format!("{x:e}"), "error": e.to_string()})),
        }
    }
    let d = SingleObjective::default();
    if !legal(d.value()) || !legal(SingleObjective::INFINITY.value()) {
        rep.violation("single:default-or-constant-illegal", json!({"default": format!("{:e}", d.value())}));
    }
    vals.push(d);
    // order: all pairs and triples
    let n = vals.len();
    for i in 0..n {
        for j in 0..n {
            rep.case();
            let (a, b) = (vals[i], vals[j]);
            let want = a.value().partial_cmp(&b.value()).unwrap();
            let got = catch(|| a.cmp(&b));
            rep.nontrivial(hash_of(&("pair", a.value().to_bits(), b.value().to_bits())));
            match got {
                Ok(o) if o == want => {}
                Ok(o) => rep.violation(&format!("single:cmp-disagrees-with-numeric-order:{}:{}", class(a.value()), class(b.value())), json!({"a": format!("{:e}", a.value()), "b": format!("{:e}", b.value()), "cmp": format!("{o:?}"), "numeric": format!("{want:?}")})),
                Err(p) => rep.violation("single:cmp-panics", json!({"a": format!("{:e}", a.value()), "b": format!("{:e}", b.value()), "panic": p})),
            }
            if (a == b) != (want == Ordering::Equal) || a.partial_cmp(&b) != Some(want) {
                rep.violation("single:eq-or-partial_cmp-disagrees-with-numeric-order", json!({"a": format!("{:e}", a.value()), "b": format!("{:e}", b.value())}));
            }
            let (x, y) = (a.value(), b.value());
            if [a < b, a <= b, a > b, a >= b] != [x < y, x <= y, x > y, x >= y] || a.max(b).value() != x.max(y) || a.min(b).value() != x.min(y) {
                rep.violation("single:comparison-operators-or-min-max-disagree-with-numeric-order", json!({"a": format!("{:e}", x), "b": format!("{:e}", y)}));
            }
            if a.cmp(&b) != b.cmp(&a).reverse() {
                rep.violation("single:cmp-not-antisymmetric", json!({"a": format!("{:e}", a.value()), "b": format!("{:e}", b.value())}));
            }
        }
    }
    let mut triples = 0u64;
    for i in 0..n {
        for j in 0..n {
            for k in 0..n {
                let (a, b, c) = (vals[i], vals[j], vals[k]);
                triples += 1;
                if a.cmp(&b) != Ordering::Greater && b.cmp(&c) != Ordering::Greater && a.cmp(&c) == Ordering::Greater {
                    rep.violation("single:cmp-not-transitive", json!({"a": format!("{:e}", a.value()), "b": format!("{:e}", b.value()), "c": format!("{:e}", c.value())}));
                }
            }
        }
    }
    rep.cases(triples);
    rep.count("single_order_triples", triples);
    // sorting, min, max never fail and agree with the numeric order
    let mut rng = SplitMix64::new(rep.seed).fork(0xC09);
    for _ in 0..rep.tier.pick(500, 5_000_000) {
        let len = rng.usize(12);
        let v: Vec<SingleObjective> = (0..len).map(|_| *rng.pick(&vals)).collect();
        rep.case();
        let r = catch(|| {
            let mut s = v.clone();
            s.sort();
            (s, v.iter().min().copied(), v.iter().max().copied())
        });
        match r {
            Ok((s, mn, mx)) => {
                let sorted_ok = s.windows(2).all(|w| w[0].value() <= w[1].value());
                let mn_ok = mn.map(|m| v.iter().all(|x| m.value() <= x.value())).unwrap_or(v.is_empty());
                let mx_ok = mx.map(|m| v.iter().all(|x| m.value() >= x.value())).unwrap_or(v.is_empty());
                if !sorted_ok || !mn_ok || !mx_ok {
                    rep.violation("single:sort-min-max-wrong", json!({"values": v.iter().map(|x| format!("{:e}", x.value())).collect::<Vec<_>>()}));
                }
            }
            Err(p) => rep.violation("single:sort-min-max-panic", json!({"panic": p})),
        }
    }
    // arithmetic operators: results are objective values obtained through the public API
    let scalars = [0.0, -0.0, 1.0, -1.0, 2.0, -2.0, 0.5, -0.5, 1e-300, -1e-300, 1e300, -1e300, f64::MAX, f64::MIN_POSITIVE, 3.0, f64::INFINITY];
    for &a in &vals {
        check_result(rep, "neg", a.value(), None, false, catch(|| (-a).value()));
        for &b in &vals {
            check_result(rep, "add", a.value(), Some(b.value()), false, catch(|| (a + b).value()));
            check_result(rep, "sub", a.value(), Some(b.value()), false, catch(|| (a - b).value()));
        }
        for &k in &scalars {
            check_result(rep, "mul", a.value(), Some(k), true, catch(|| (a * k).value()));
            check_result(rep, "div", a.value(), Some(k), true, catch(|| (a / k).value()));
        }
    }
    rep.sample(json!({"single_objective_values": vals.iter().take(12).map(|x| format!("{:e}", x.value())).collect::<Vec<_>>(), "illegal_inputs_tried": g.iter().filter(|x| !legal(**x)).map(|x| format!("{:016x}", x.to_bits())).collect::<Vec<_>>()}));
}

fn multi(rep: &Reporter) {
    let g = [-1.0, -0.0, 0.0, 1.0, 2.0, f64::MAX, f64::INFINITY];
    // construction
    for bad in [f64::NAN, f64::NEG_INFINITY, -f64::NAN] {
        for pos in 0..3 {
            rep.case();
            let mut v = vec![1.0, 2.0, 3.0];
            v[pos] = bad;
            let a = MultiObjective::try_from(v.clone());
            let b = MultiObjective::try_from(v.as_slice());
            if a.is_ok() || b.is_ok() {
                rep.violation(&format!("multi:accepts-{}", class(bad)), json!({"vector": format!("{v:?}"), "position": pos}));
            }
        }
    }
    // every vector of length 1..=3 over {1, +inf, NaN, -inf}: rejected iff it contains NaN or -inf,
    // wherever the illegal entry stands (also behind a legal +inf)
    let h = [1.0, f64::INFINITY, f64::NAN, f64::NEG_INFINITY];
    for len in 1..=3usize {
        for code in 0..h.len().pow(len as u32) {
            let mut c = code;
            let v: Vec<f64> = (0..len).map(|_| { let x = h[c % 4]; c /= 4; x }).collect();
            rep.case();
            let illegal = v.iter().any(|x| !legal(*x));
            let a = MultiObjective::try_from(v.clone()).is_ok();
            let b = MultiObjective::try_from(v.as_slice()).is_ok();
            if a == illegal || b == illegal {
                let first_bad = v.iter().position(|x| !legal(*x));
                let inf_before = first_bad.map(|p| v[..p].iter().any(|x| x.is_infinite())).unwrap_or(false);
                rep.violation(&format!("multi:{}", if illegal { if inf_before { "accepts-illegal-entry-behind-a-legal-infinity" } else { "accepts-illegal-entry" } } else { "rejects-legal-vector" }), json!({"vector": format!("{v:?}"), "from_vec_ok": a, "from_slice_ok": b}));
            }
        }
    }
    let mut vecs: Vec<Vec<f64>> = vec![vec![]];
    for len in 1..=3usize {
        for code in 0..g.len().pow(len as u32) {
            let mut c = code;
            vecs.push((0..len).map(|_| { let v = g[c % g.len()]; c /= g.len(); v }).collect());
        }
    }
    let objs: Vec<MultiObjective> = vecs
        .iter()
        .filter_map(|v| {
            rep.case();
            match (MultiObjective::try_from(v.clone()), MultiObjective::try_from(v.as_slice())) {
                (Ok(a), Ok(b)) => {
                    if a.value().iter().zip(v).any(|(x, y)| x.to_bits() != y.to_bits()) || a != b || Vec::<f64>::from(a.clone()) != *v {
                        rep.violation("multi:construction-changes-the-value", json!({"vector": format!("{v:?}")}));
                    }
                    Some(a)
                }
                _ => {
                    rep.violation("multi:rejects-legal-vector", json!({"vector": format!("{v:?}")}));
                    None
                }
            }
        })
        .collect();
    // reference Pareto relation
    let reference = |a: &[f64], b: &[f64]| -> Option<Ordering> {
        if a.len() != b.len() {
            return None;
        }
        if a.iter().zip(b).all(|(x, y)| x == y) {
            return Some(Ordering::Equal);
        }
        let better = a.iter().zip(b).any(|(x, y)| x < y);
        let worse = a.iter().zip(b).any(|(x, y)| x > y);
        match (better, worse) {
            (true, false) => Some(Ordering::Less),
            (false, true) => Some(Ordering::Greater),
            _ => None,
        }
    };
    let n = objs.len();
    let mut pairs = 0u64;
    for i in 0..n {
        for j in 0..n {
            pairs += 1;
            let (a, b) = (&objs[i], &objs[j]);
            let got = a.partial_cmp(b);
            let want = reference(a.value(), b.value());
            if i % 3 == 0 {
                rep.nontrivial(hash_of(&("mpair", i, j)));
            }
            if got != want {
                let kind = if a.value().len() != b.value().len() { "different-length" } else if want.is_none() { "trade-off" } else { "domination" };
                rep.violation(&format!("multi:partial_cmp-wrong:{kind}"), json!({"a": format!("{:?}", a.value()), "b": format!("{:?}", b.value()), "partial_cmp": format!("{got:?}"), "pareto": format!("{want:?}")}));
            }
            if (got == Some(Ordering::Equal)) != (a == b) {
                rep.violation("multi:equal-disagrees-with-eq", json!({"a": format!("{:?}", a.value()), "b": format!("{:?}", b.value())}));
            }
            if got.map(Ordering::reverse) != b.partial_cmp(a) {
                rep.violation("multi:domination-not-antisymmetric", json!({"a": format!("{:?}", a.value()), "b": format!("{:?}", b.value())}));
            }
            // the comparison operators are the same relation as partial_cmp (incomparable => all four false)
            let ops = [a < b, a <= b, a > b, a >= b];
            let want_ops = [want == Some(Ordering::Less), matches!(want, Some(Ordering::Less | Ordering::Equal)), want == Some(Ordering::Greater), matches!(want, Some(Ordering::Greater | Ordering::Equal))];
            if ops != want_ops {
                let kind = if a.value().len() != b.value().len() { "different-length" } else if want.is_none() { "trade-off" } else { "domination" };
                rep.violation(&format!("multi:comparison-operators-disagree-with-pareto:{kind}"), json!({"a": format!("{:?}", a.value()), "b": format!("{:?}", b.value()), "[<, <=, >, >=]": ops, "pareto": format!("{want:?}")}));
            }
        }
    }
    rep.cases(pairs);
    rep.count("multi_pairs", pairs);
    // transitivity on all triples of vectors up to length 2 (and sampled triples of length 3)
    let small: Vec<&MultiObjective> = objs.iter().filter(|o| o.value().len() <= 2).collect();
    let mut triples = 0u64;
    for a in &small {
        for b in &small {
            if a.partial_cmp(b) != Some(Ordering::Less) {
                continue;
            }
            for c in &small {
                triples += 1;
                if b.partial_cmp(c) == Some(Ordering::Less) && a.partial_cmp(c) != Some(Ordering::Less) {
                    rep.violation("multi:domination-not-transitive", json!({"a": format!("{:?}", a.value()), "b": format!("{:?}", b.value()), "c": format!("{:?}", c.value())}));
                }
            }
        }
    }
    let mut rng = SplitMix64::new(rep.seed).fork(0xC09_3);
    for _ in 0..rep.tier.pick(20_000, 300_000_000) {
        let (a, b, c) = (rng.pick(&objs), rng.pick(&objs), rng.pick(&objs));
        triples += 1;
        if a.partial_cmp(b) == Some(Ordering::Less) && b.partial_cmp(c) == Some(Ordering::Less) && a.partial_cmp(c) != Some(Ordering::Less) {
            rep.violation("multi:domination-not-transitive", json!({"a": format!("{:?}", a.value()), "b": format!("{:?}", b.value()), "c": format!("{:?}", c.value())}));
        }
    }
    rep.cases(triples);
    rep.count("multi_triples", triples);
    rep.sample(json!({"multi_objective_pair": {"a": [0.0, 0.0], "b": [1.0, 1.0, 1.0], "expected": "incomparable (different length)"}}));
}

fn main() {
    let rep = Reporter::from_args("C09");
    rep.rule("SingleObjective: construction over a grid of special doubles (zeros, subnormals, extremes, infinities, six NaN encodings) plus random bit patterns; all pairs and triples of the constructed values for cmp/eq/partial_cmp (numeric agreement, antisymmetry, transitivity); random slices through sort/min/max; every derived operator (+ - unary- on all pairs, * and / against 16 finite-or-+inf scalars) with the result classified. MultiObjective: construction, all pairs of all vectors of length 0..3 over a 7-value grid against a reference Pareto relation, equality agreement, the four comparison operators as the same relation (all false for incomparable vectors), antisymmetry, transitivity on all triples up to length 2 and sampled triples. distinct_nontrivial = distinct value pairs compared");
    rep.assume("scalars passed to * and / are finite or +inf (a NaN or -inf scalar is the caller's value, not the library's)");
    let mut rng = SplitMix64::new(rep.seed).fork(0xC09_1);
    let g = grid(&mut rng, rep.tier.pick(30, 600));
    rep.set("grid_size", json!(g.len()));
    single(&rep, &g);
    multi(&rep);
    rep.exhaustive(true);
    rep.finish();
}
